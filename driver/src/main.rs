//! essb-facts: a rustc_private driver that dumps type-checked facts (MIR, ADTs,
//! impls, constants, lint levels, unsafe blocks) of every workspace crate of
//! /repo as JSON.  Injected through RUSTC_WORKSPACE_WRAPPER; nothing is executed.
#![feature(rustc_private)]

extern crate rustc_abi;
extern crate rustc_driver;
extern crate rustc_hir;
extern crate rustc_interface;
extern crate rustc_lint;
extern crate rustc_middle;
extern crate rustc_span;

mod json;

use json::J;
use rustc_driver::Compilation;
use rustc_hir::def::DefKind;
use rustc_hir::def_id::{DefId, LocalDefId};
use rustc_middle::mir::{self, Body, Operand, Place, Rvalue, StatementKind, TerminatorKind};
use rustc_middle::ty::print::{with_no_trimmed_paths, with_no_visible_paths, with_resolve_crate_name, PrintTraitRefExt};
use rustc_middle::ty::{self, Instance, Ty, TyCtxt, TypingEnv};
use rustc_span::Span;

macro_rules! canon {
    ($e:expr) => {
        canon_std(with_no_visible_paths!(with_resolve_crate_name!(with_no_trimmed_paths!($e))))
    };
}

/// Definition paths of std items are printed by their defining (private) module; map
/// them to the conventional public `std::` spelling so rules do not depend on std's
/// internal module layout.
fn canon_std(s: String) -> String {
    if !(s.contains("core::") || s.contains("alloc::") || s.contains("std::")) {
        return s;
    }
    const EXACT: &[(&str, &str)] = &[
        ("alloc::collections::btree::map::BTreeMap", "std::collections::BTreeMap"),
        ("alloc::collections::btree::set::BTreeSet", "std::collections::BTreeSet"),
        ("alloc::collections::btree::map::", "std::collections::btree_map::"),
        ("alloc::collections::btree::set::", "std::collections::btree_set::"),
        ("alloc::collections::vec_deque::VecDeque", "std::collections::VecDeque"),
        ("alloc::collections::binary_heap::BinaryHeap", "std::collections::BinaryHeap"),
        ("std::collections::hash::map::HashMap", "std::collections::HashMap"),
        ("std::collections::hash::set::HashSet", "std::collections::HashSet"),
        ("std::collections::hash::map::", "std::collections::hash_map::"),
        ("std::collections::hash::set::", "std::collections::hash_set::"),
        ("std::sync::poison::mutex::", "std::sync::"),
        ("std::sync::poison::rwlock::", "std::sync::"),
        ("std::sync::poison::condvar::", "std::sync::"),
        ("std::sync::poison::once::", "std::sync::"),
        ("std::sync::poison::", "std::sync::"),
        ("std::sync::once_lock::", "std::sync::"),
        ("std::sync::lazy_lock::", "std::sync::"),
        ("std::sync::barrier::", "std::sync::"),
        ("alloc::vec::into_iter::", "alloc::vec::"),
        ("alloc::vec::drain::", "alloc::vec::"),
        ("core::slice::iter::Iter", "core::slice::Iter"),
        ("core::iter::traits::iterator::", "core::iter::"),
        ("core::iter::traits::collect::", "core::iter::"),
        ("core::iter::traits::accum::", "core::iter::"),
        ("core::iter::traits::double_ended::", "core::iter::"),
        ("core::iter::traits::exact_size::", "core::iter::"),
        ("core::ops::deref::", "core::ops::"),
        ("core::ops::index::", "core::ops::"),
        ("core::ops::arith::", "core::ops::"),
        ("core::ops::bit::", "core::ops::"),
        ("core::ops::function::", "core::ops::"),
        ("core::ops::try_trait::", "core::ops::"),
        ("core::ops::range::", "core::ops::"),
        ("core::ops::control_flow::", "core::ops::"),
        ("core::ops::drop::", "core::ops::"),
        ("core::convert::num::ptr_try_from_impls::", "core::convert::num::"),
        ("core::sync::atomic::", "std::sync::atomic::"),
    ];
    let mut s = s;
    for (a, b) in EXACT {
        if s.contains(a) {
            s = s.replace(a, b);
        }
    }
    // drop the private module segment of iterator adapters / sources
    for pre in ["core::iter::adapters::", "core::iter::sources::"] {
        while let Some(i) = s.find(pre) {
            let rest = &s[i + pre.len()..];
            if let Some(j) = rest.find("::") {
                let seg = &rest[..j];
                if seg.chars().all(|c| c.is_ascii_lowercase() || c == '_') {
                    s = format!("{}core::iter::{}", &s[..i], &rest[j + 2..]);
                    continue;
                }
            }
            s = format!("{}core::iter::{}", &s[..i], rest);
        }
    }
    // crate roots core / alloc -> std
    let mut out = String::with_capacity(s.len());
    let b = s.as_bytes();
    let mut i = 0;
    while i < b.len() {
        let at_boundary = i == 0 || !(b[i - 1].is_ascii_alphanumeric() || b[i - 1] == b'_' || b[i - 1] == b':');
        if at_boundary && s[i..].starts_with("core::") {
            out.push_str("std::");
            i += 6;
        } else if at_boundary && s[i..].starts_with("alloc::") {
            out.push_str("std::");
            i += 7;
        } else {
            let ch = s[i..].chars().next().unwrap();
            out.push(ch);
            i += ch.len_utf8();
        }
    }
    out
}

struct Cb {
    args: Vec<String>,
}

fn jstr(s: impl Into<String>) -> J {
    J::Str(s.into())
}

fn full_path(tcx: TyCtxt<'_>, did: DefId) -> String {
    canon!(tcx.def_path_str(did))
}

fn full_path_args<'tcx>(tcx: TyCtxt<'tcx>, did: DefId, args: ty::GenericArgsRef<'tcx>) -> String {
    canon!(tcx.def_path_str_with_args(did, args))
}

fn ty_str(t: Ty<'_>) -> String {
    canon!(t.to_string())
}

struct Cx<'tcx> {
    tcx: TyCtxt<'tcx>,
}

impl<'tcx> Cx<'tcx> {
    fn span(&self, sp: Span) -> J {
        let sm = self.tcx.sess.source_map();
        let cs = sp.source_callsite();
        let lo = sm.lookup_char_pos(cs.lo());
        let hi = sm.lookup_char_pos(cs.hi());
        let file = match &lo.file.name {
            rustc_span::FileName::Real(r) => match r.local_path() {
                Some(p) => p.display().to_string(),
                None => format!("{:?}", r),
            },
            other => format!("{:?}", other),
        };
        J::obj(vec![
            ("file", jstr(file)),
            ("line", J::Num(lo.line as i128)),
            ("col", J::Num(lo.col.0 as i128)),
            ("eline", J::Num(hi.line as i128)),
            ("exp", J::Bool(sp.from_expansion())),
        ])
    }

    fn line(&self, sp: Span) -> (i128, bool) {
        let sm = self.tcx.sess.source_map();
        let cs = sp.source_callsite();
        let lo = sm.lookup_char_pos(cs.lo());
        (lo.line as i128, sp.from_expansion())
    }

    fn place(&self, body: &Body<'tcx>, p: &Place<'tcx>) -> J {
        let tcx = self.tcx;
        let mut projs = Vec::new();
        let mut pty = mir::PlaceTy::from_ty(body.local_decls[p.local].ty);
        for elem in p.projection.iter() {
            let j = match elem {
                mir::ProjectionElem::Deref => J::obj(vec![("k", jstr("deref"))]),
                mir::ProjectionElem::Field(f, fty) => {
                    let mut name = format!("{}", f.index());
                    let mut owner = String::new();
                    if let ty::Adt(adt, _) = pty.ty.kind() {
                        let vidx = pty.variant_index.unwrap_or(rustc_abi::FIRST_VARIANT);
                        if vidx.index() < adt.variants().len() {
                            let v = adt.variant(vidx);
                            if f.index() < v.fields.len() {
                                name = v.fields[f].name.to_string();
                            }
                            owner = format!("{}::{}", full_path(tcx, adt.did()), v.name);
                            if adt.is_struct() || adt.is_union() {
                                owner = full_path(tcx, adt.did());
                            }
                        }
                    } else if let ty::Closure(did, _) = pty.ty.kind() {
                        owner = format!("closure:{}", full_path(tcx, *did));
                        if let Some(ldid) = did.as_local() {
                            let names = tcx.closure_saved_names_of_captured_variables(ldid.to_def_id());
                            if f.index() < names.len() {
                                name = names[f].to_string();
                            }
                        }
                    } else if let ty::Tuple(_) = pty.ty.kind() {
                        owner = "tuple".into();
                    }
                    J::obj(vec![
                        ("k", jstr("field")),
                        ("i", J::Num(f.index() as i128)),
                        ("name", jstr(name)),
                        ("of", jstr(owner)),
                        ("ty", jstr(ty_str(fty))),
                    ])
                }
                mir::ProjectionElem::Index(l) => {
                    J::obj(vec![("k", jstr("index")), ("l", J::Num(l.index() as i128))])
                }
                mir::ProjectionElem::ConstantIndex { offset, min_length, from_end } => J::obj(vec![
                    ("k", jstr("cindex")),
                    ("off", J::Num(offset as i128)),
                    ("min", J::Num(min_length as i128)),
                    ("from_end", J::Bool(from_end)),
                ]),
                mir::ProjectionElem::Subslice { from, to, from_end } => J::obj(vec![
                    ("k", jstr("subslice")),
                    ("from", J::Num(from as i128)),
                    ("to", J::Num(to as i128)),
                    ("from_end", J::Bool(from_end)),
                ]),
                mir::ProjectionElem::Downcast(name, vidx) => J::obj(vec![
                    ("k", jstr("downcast")),
                    ("variant", jstr(name.map(|s| s.to_string()).unwrap_or_default())),
                    ("vi", J::Num(vidx.index() as i128)),
                ]),
                other => J::obj(vec![("k", jstr("other")), ("dbg", jstr(format!("{:?}", other)))]),
            };
            projs.push(j);
            pty = pty.projection_ty(tcx, elem);
        }
        J::obj(vec![("l", J::Num(p.local.index() as i128)), ("p", J::Arr(projs))])
    }

    fn constant(&self, owner: LocalDefId, c: &mir::ConstOperand<'tcx>) -> J {
        let tcx = self.tcx;
        let ty = c.const_.ty();
        let mut fields: Vec<(&str, J)> = vec![("k", jstr("const")), ("ty", jstr(ty_str(ty)))];
        // function items / closures as zero-sized constants
        match ty.kind() {
            ty::FnDef(did, args) => {
                fields.push(("fn", jstr(full_path(tcx, *did))));
                fields.push(("fn_args", jstr(full_path_args(tcx, *did, args))));
                return J::obj(fields);
            }
            _ => {}
        }
        let typing_env = TypingEnv::post_analysis(tcx, owner.to_def_id());
        match c.const_ {
            mir::Const::Unevaluated(uv, _) => {
                let dk = tcx.def_kind(uv.def);
                if uv.promoted.is_none() && matches!(dk, DefKind::Const { .. } | DefKind::AssocConst { .. } | DefKind::Static { .. }) {
                    fields.push(("named", jstr(full_path(tcx, uv.def))));
                } else if let Some(p) = uv.promoted {
                    fields.push(("promoted", J::Num(p.index() as i128)));
                } else {
                    fields.push(("uneval", jstr(full_path(tcx, uv.def))));
                }
            }
            mir::Const::Ty(_, ct) => {
                fields.push(("tyconst", jstr(format!("{:?}", ct))));
            }
            mir::Const::Val(..) => {}
        }
        // try to evaluate to a scalar
        if let Ok(val) = c.const_.eval(tcx, typing_env, c.span) {
            match val {
                mir::ConstValue::Scalar(rustc_middle::mir::interpret::Scalar::Int(si)) => {
                    let bits = si.to_bits_unchecked();
                    let size = si.size().bytes();
                    fields.push(("bits", jstr(bits.to_string())));
                    fields.push(("size", J::Num(size as i128)));
                    // signed interpretation
                    if let ty::Int(_) = ty.kind() {
                        let sh = 128 - size * 8;
                        if size > 0 {
                            let sv = ((bits << sh) as i128) >> sh;
                            fields.push(("int", jstr(sv.to_string())));
                        }
                    } else if matches!(ty.kind(), ty::Uint(_) | ty::Bool | ty::Char) {
                        fields.push(("int", jstr(bits.to_string())));
                    }
                }
                mir::ConstValue::ZeroSized => {
                    fields.push(("zst", J::Bool(true)));
                }
                mir::ConstValue::Slice { .. } => {
                    if let Some(bytes) = val.try_get_slice_bytes_for_diagnostics(tcx) {
                        if let Ok(s) = std::str::from_utf8(bytes) {
                            if s.len() <= 400 {
                                fields.push(("str", jstr(s)));
                            }
                        }
                    }
                }
                _ => {}
            }
        }
        J::obj(fields)
    }

    fn operand(&self, owner: LocalDefId, body: &Body<'tcx>, op: &Operand<'tcx>) -> J {
        match op {
            Operand::Copy(p) => J::obj(vec![("k", jstr("copy")), ("pl", self.place(body, p))]),
            Operand::Move(p) => J::obj(vec![("k", jstr("move")), ("pl", self.place(body, p))]),
            Operand::Constant(c) => self.constant(owner, c),
            #[allow(unreachable_patterns)]
            other => J::obj(vec![("k", jstr("otherop")), ("dbg", jstr(format!("{:?}", other)))]),
        }
    }

    fn rvalue(&self, owner: LocalDefId, body: &Body<'tcx>, rv: &Rvalue<'tcx>) -> J {
        let tcx = self.tcx;
        match rv {
            Rvalue::Use(op, ..) => J::obj(vec![("k", jstr("use")), ("a", self.operand(owner, body, op))]),
            Rvalue::Repeat(op, n) => J::obj(vec![
                ("k", jstr("repeat")),
                ("a", self.operand(owner, body, op)),
                ("n", jstr(format!("{:?}", n))),
            ]),
            Rvalue::Ref(_, bk, p) => J::obj(vec![
                ("k", jstr("ref")),
                ("mut", J::Bool(matches!(bk, mir::BorrowKind::Mut { .. }))),
                ("pl", self.place(body, p)),
            ]),
            Rvalue::RawPtr(k, p) => J::obj(vec![
                ("k", jstr("rawptr")),
                ("kind", jstr(format!("{:?}", k))),
                ("pl", self.place(body, p)),
            ]),
            Rvalue::Cast(kind, op, ty) => J::obj(vec![
                ("k", jstr("cast")),
                ("kind", jstr(format!("{:?}", kind))),
                ("a", self.operand(owner, body, op)),
                ("from", jstr(ty_str(op.ty(&body.local_decls, tcx)))),
                ("ty", jstr(ty_str(*ty))),
            ]),
            Rvalue::BinaryOp(bop, ab) => {
                let (a, b) = &**ab;
                J::obj(vec![
                    ("k", jstr("binop")),
                    ("op", jstr(format!("{:?}", bop))),
                    ("a", self.operand(owner, body, a)),
                    ("b", self.operand(owner, body, b)),
                    ("aty", jstr(ty_str(a.ty(&body.local_decls, tcx)))),
                    ("bty", jstr(ty_str(b.ty(&body.local_decls, tcx)))),
                ])
            }
            Rvalue::UnaryOp(uop, a) => J::obj(vec![
                ("k", jstr("unop")),
                ("op", jstr(format!("{:?}", uop))),
                ("a", self.operand(owner, body, a)),
                ("aty", jstr(ty_str(a.ty(&body.local_decls, tcx)))),
            ]),
            Rvalue::Discriminant(p) => J::obj(vec![("k", jstr("discr")), ("pl", self.place(body, p))]),
            Rvalue::Aggregate(kind, ops) => {
                let mut f: Vec<(&str, J)> = vec![("k", jstr("aggr"))];
                match &**kind {
                    mir::AggregateKind::Array(t) => {
                        f.push(("agg", jstr("array")));
                        f.push(("ty", jstr(ty_str(*t))));
                    }
                    mir::AggregateKind::Tuple => f.push(("agg", jstr("tuple"))),
                    mir::AggregateKind::Adt(did, vidx, args, _, _) => {
                        let adt = tcx.adt_def(*did);
                        f.push(("agg", jstr("adt")));
                        f.push(("adt", jstr(full_path(tcx, *did))));
                        f.push(("adt_args", jstr(full_path_args(tcx, *did, args))));
                        let v = adt.variant(*vidx);
                        f.push(("variant", jstr(v.name.to_string())));
                        f.push(("vi", J::Num(vidx.index() as i128)));
                        f.push((
                            "fields",
                            J::Arr(v.fields.iter().map(|fd| jstr(fd.name.to_string())).collect()),
                        ));
                    }
                    mir::AggregateKind::Closure(did, _) => {
                        f.push(("agg", jstr("closure")));
                        f.push(("closure", jstr(full_path(tcx, *did))));
                        if did.is_local() {
                            let names = tcx.closure_saved_names_of_captured_variables(*did);
                            f.push(("fields", J::Arr(names.iter().map(|n| jstr(n.to_string())).collect())));
                        }
                    }
                    other => {
                        f.push(("agg", jstr("other")));
                        f.push(("dbg", jstr(format!("{:?}", other))));
                    }
                }
                f.push(("ops", J::Arr(ops.iter().map(|o| self.operand(owner, body, o)).collect())));
                J::obj(f)
            }
            Rvalue::CopyForDeref(p) => J::obj(vec![("k", jstr("use")), ("a", J::obj(vec![("k", jstr("copy")), ("pl", self.place(body, p))]))]),
            other => J::obj(vec![("k", jstr("other")), ("dbg", jstr(format!("{:?}", other)))]),
        }
    }

    fn callee(&self, owner: LocalDefId, body: &Body<'tcx>, func: &Operand<'tcx>) -> Vec<(&'static str, J)> {
        let tcx = self.tcx;
        let fty = func.ty(&body.local_decls, tcx);
        let mut f: Vec<(&'static str, J)> = Vec::new();
        match fty.kind() {
            ty::FnDef(did, args) => {
                f.push(("callee", jstr(full_path(tcx, *did))));
                f.push(("callee_args", jstr(full_path_args(tcx, *did, args))));
                f.push(("callee_crate", jstr(tcx.crate_name(did.krate).to_string())));
                f.push((
                    "gargs",
                    J::Arr(args.iter().map(|a| jstr(canon!(a.to_string()))).collect()),
                ));
                // trait method?
                if let Some(tr) = tcx.trait_of_assoc(*did) {
                    f.push(("trait", jstr(full_path(tcx, tr))));
                }
                let typing_env = TypingEnv::post_analysis(tcx, owner.to_def_id());
                let resolved = std::panic::catch_unwind(std::panic::AssertUnwindSafe(|| {
                    Instance::try_resolve(tcx, typing_env, *did, args)
                }));
                if let Ok(Ok(Some(inst))) = resolved {
                    let rdid = inst.def_id();
                    f.push(("res", jstr(full_path(tcx, rdid))));
                    f.push(("res_args", jstr(full_path_args(tcx, rdid, inst.args))));
                    f.push(("res_crate", jstr(tcx.crate_name(rdid.krate).to_string())));
                    f.push(("res_kind", jstr(format!("{:?}", std::mem::discriminant(&inst.def)).to_string())));
                    let kind = match inst.def {
                        ty::InstanceKind::Item(_) => "item",
                        ty::InstanceKind::Virtual(..) => "virtual",
                        ty::InstanceKind::ClosureOnceShim { .. } => "closure_once_shim",
                        ty::InstanceKind::FnPtrShim(..) => "fnptr_shim",
                        ty::InstanceKind::DropGlue(..) => "drop_glue",
                        ty::InstanceKind::CloneShim(..) => "clone_shim",
                        ty::InstanceKind::Intrinsic(..) => "intrinsic",
                        ty::InstanceKind::ReifyShim(..) => "reify_shim",
                        _ => "other",
                    };
                    f.push(("res_k", jstr(kind)));
                }
            }
            ty::FnPtr(..) => {
                f.push(("callee", jstr("<fnptr>")));
                f.push(("fnptr_ty", jstr(ty_str(fty))));
                if let Operand::Copy(p) | Operand::Move(p) = func {
                    f.push(("fnptr_pl", self.place(body, p)));
                }
            }
            _ => {
                f.push(("callee", jstr("<unknown>")));
                f.push(("fnptr_ty", jstr(ty_str(fty))));
            }
        }
        f
    }

    fn body(&self, did: LocalDefId) -> J {
        let body: &Body<'tcx> = self.tcx.optimized_mir(did.to_def_id());
        self.body_of(did, body)
    }

    fn body_of(&self, did: LocalDefId, body: &Body<'tcx>) -> J {
        let tcx = self.tcx;
        let mut locals = Vec::new();
        for (_l, d) in body.local_decls.iter_enumerated() {
            locals.push(J::obj(vec![
                ("ty", jstr(ty_str(d.ty))),
                ("mut", J::Bool(d.mutability.is_mut())),
            ]));
        }
        let mut dbg = Vec::new();
        for v in &body.var_debug_info {
            if let mir::VarDebugInfoContents::Place(p) = &v.value {
                dbg.push(J::obj(vec![
                    ("name", jstr(v.name.to_string())),
                    ("pl", self.place(body, p)),
                    ("arg", match v.argument_index { Some(i) => J::Num(i as i128), None => J::Null }),
                ]));
            }
        }
        let mut blocks = Vec::new();
        for (_bb, data) in body.basic_blocks.iter_enumerated() {
            let mut stmts = Vec::new();
            for st in &data.statements {
                match &st.kind {
                    StatementKind::Assign(b) => {
                        let (pl, rv) = &**b;
                        let (line, exp) = self.line(st.source_info.span);
                        stmts.push(J::obj(vec![
                            ("k", jstr("assign")),
                            ("pl", self.place(body, pl)),
                            ("rv", self.rvalue(did, body, rv)),
                            ("line", J::Num(line)),
                            ("exp", J::Bool(exp)),
                        ]));
                    }
                    StatementKind::SetDiscriminant { place, variant_index } => {
                        stmts.push(J::obj(vec![
                            ("k", jstr("setdiscr")),
                            ("pl", self.place(body, place)),
                            ("vi", J::Num(variant_index.index() as i128)),
                        ]));
                    }
                    StatementKind::StorageDead(l) => {
                        stmts.push(J::obj(vec![("k", jstr("dead")), ("l", J::Num(l.index() as i128))]));
                    }
                    StatementKind::Intrinsic(i) => {
                        stmts.push(J::obj(vec![("k", jstr("intrinsic")), ("dbg", jstr(format!("{:?}", i)))]));
                    }
                    _ => {}
                }
            }
            let term = data.terminator();
            let (line, exp) = self.line(term.source_info.span);
            let mut t: Vec<(&str, J)> = vec![("line", J::Num(line)), ("exp", J::Bool(exp))];
            let bbn = |b: mir::BasicBlock| J::Num(b.index() as i128);
            let unwind = |u: &mir::UnwindAction| match u {
                mir::UnwindAction::Cleanup(b) => J::Num(b.index() as i128),
                mir::UnwindAction::Continue => jstr("continue"),
                mir::UnwindAction::Unreachable => jstr("unreachable"),
                mir::UnwindAction::Terminate(_) => jstr("terminate"),
            };
            match &term.kind {
                TerminatorKind::Goto { target } => {
                    t.push(("k", jstr("goto")));
                    t.push(("target", bbn(*target)));
                }
                TerminatorKind::SwitchInt { discr, targets } => {
                    t.push(("k", jstr("switch")));
                    t.push(("discr", self.operand(did, body, discr)));
                    t.push(("dty", jstr(ty_str(discr.ty(&body.local_decls, tcx)))));
                    let mut arms = Vec::new();
                    for (v, b) in targets.iter() {
                        arms.push(J::Arr(vec![jstr(v.to_string()), bbn(b)]));
                    }
                    t.push(("arms", J::Arr(arms)));
                    t.push(("otherwise", bbn(targets.otherwise())));
                }
                TerminatorKind::UnwindResume => t.push(("k", jstr("resume"))),
                TerminatorKind::UnwindTerminate(_) => t.push(("k", jstr("terminate"))),
                TerminatorKind::Return => t.push(("k", jstr("return"))),
                TerminatorKind::Unreachable => t.push(("k", jstr("unreachable"))),
                TerminatorKind::Drop { place, target, unwind: u, .. } => {
                    t.push(("k", jstr("drop")));
                    t.push(("pl", self.place(body, place)));
                    t.push(("target", bbn(*target)));
                    t.push(("unwind", unwind(u)));
                }
                TerminatorKind::Call { func, args, destination, target, unwind: u, .. } => {
                    t.push(("k", jstr("call")));
                    for kv in self.callee(did, body, func) {
                        t.push(kv);
                    }
                    t.push(("args", J::Arr(args.iter().map(|a| self.operand(did, body, &a.node)).collect())));
                    t.push((
                        "arg_tys",
                        J::Arr(args.iter().map(|a| jstr(ty_str(a.node.ty(&body.local_decls, tcx)))).collect()),
                    ));
                    t.push(("dest", self.place(body, destination)));
                    t.push(("target", match target { Some(b) => bbn(*b), None => J::Null }));
                    t.push(("unwind", unwind(u)));
                }
                TerminatorKind::TailCall { func, args, .. } => {
                    t.push(("k", jstr("tailcall")));
                    for kv in self.callee(did, body, func) {
                        t.push(kv);
                    }
                    t.push(("args", J::Arr(args.iter().map(|a| self.operand(did, body, &a.node)).collect())));
                }
                TerminatorKind::Assert { cond, expected, msg, target, unwind: u } => {
                    t.push(("k", jstr("assert")));
                    t.push(("cond", self.operand(did, body, cond)));
                    t.push(("expected", J::Bool(*expected)));
                    let (kind, ops): (String, Vec<&Operand<'tcx>>) = match &**msg {
                        mir::AssertKind::BoundsCheck { len, index } => ("BoundsCheck".into(), vec![len, index]),
                        mir::AssertKind::Overflow(op, a, b) => (format!("Overflow({:?})", op), vec![a, b]),
                        mir::AssertKind::OverflowNeg(a) => ("OverflowNeg".into(), vec![a]),
                        mir::AssertKind::DivisionByZero(a) => ("DivisionByZero".into(), vec![a]),
                        mir::AssertKind::RemainderByZero(a) => ("RemainderByZero".into(), vec![a]),
                        mir::AssertKind::MisalignedPointerDereference { .. } => ("MisalignedPointerDereference".into(), vec![]),
                        mir::AssertKind::NullPointerDereference => ("NullPointerDereference".into(), vec![]),
                        other => (format!("Other({:?})", std::mem::discriminant(other)), vec![]),
                    };
                    t.push(("msg", jstr(kind)));
                    t.push(("ops", J::Arr(ops.into_iter().map(|o| self.operand(did, body, o)).collect())));
                    t.push(("target", bbn(*target)));
                    t.push(("unwind", unwind(u)));
                }
                TerminatorKind::FalseEdge { real_target, .. } => {
                    t.push(("k", jstr("goto")));
                    t.push(("target", bbn(*real_target)));
                }
                TerminatorKind::FalseUnwind { real_target, .. } => {
                    t.push(("k", jstr("goto")));
                    t.push(("target", bbn(*real_target)));
                }
                other => {
                    t.push(("k", jstr("other")));
                    t.push(("dbg", jstr(format!("{:?}", std::mem::discriminant(other)))));
                }
            }
            blocks.push(J::obj(vec![
                ("cleanup", J::Bool(data.is_cleanup)),
                ("stmts", J::Arr(stmts)),
                ("term", J::obj(t)),
            ]));
        }
        J::obj(vec![
            ("arg_count", J::Num(body.arg_count as i128)),
            ("locals", J::Arr(locals)),
            ("dbg", J::Arr(dbg)),
            ("blocks", J::Arr(blocks)),
        ])
    }
}

struct UnsafeCounter {
    blocks: Vec<(Span,)>,
}

impl<'v> rustc_hir::intravisit::Visitor<'v> for UnsafeCounter {
    fn visit_block(&mut self, b: &'v rustc_hir::Block<'v>) {
        if let rustc_hir::BlockCheckMode::UnsafeBlock(src) = b.rules {
            if matches!(src, rustc_hir::UnsafeSource::UserProvided) {
                self.blocks.push((b.span,));
            }
        }
        rustc_hir::intravisit::walk_block(self, b);
    }
}

impl rustc_driver::Callbacks for Cb {
    fn after_analysis<'tcx>(&mut self, _c: &rustc_interface::interface::Compiler, tcx: TyCtxt<'tcx>) -> Compilation {
        let out_dir = match std::env::var("ESSB_FACTS_DIR") {
            Ok(d) => d,
            Err(_) => return Compilation::Continue,
        };
        let crate_name = tcx.crate_name(rustc_hir::def_id::LOCAL_CRATE).to_string();
        let cx = Cx { tcx };
        let unsafe_code_lint: &'static rustc_lint::Lint = rustc_lint::unerased_lint_store(tcx.sess)
            .get_lints()
            .iter()
            .copied()
            .find(|l| l.name_lower() == "unsafe_code")
            .expect("unsafe_code lint");
        let mut fns = Vec::new();
        for did in tcx.hir_body_owners() {
            let dk = tcx.def_kind(did);
            let is_fn = matches!(dk, DefKind::Fn | DefKind::AssocFn | DefKind::Closure);
            let is_const = matches!(dk, DefKind::Const { .. } | DefKind::AssocConst { .. });
            if !is_fn && !is_const {
                continue;
            }
            if is_const {
                // constant initialisers (e.g. the generated `short::*` op constants)
                let generics = tcx.generics_of(did);
                if generics.count() != 0 || generics.parent_count != 0 {
                    continue;
                }
                let span = tcx.def_span(did);
                let f: Vec<(&str, J)> = vec![
                    ("path", jstr(full_path(tcx, did.to_def_id()))),
                    ("kind", jstr("Const")),
                    ("span", cx.span(tcx.hir_span_with_body(tcx.local_def_id_to_hir_id(did)))),
                    ("exp", J::Bool(span.from_expansion())),
                    ("vis", jstr(format!("{:?}", tcx.visibility(did)))),
                    ("unsafe_code_level", jstr("n/a")),
                    ("unsafe_blocks", J::Arr(vec![])),
                    ("mir", cx.body_of(did, tcx.mir_for_ctfe(did.to_def_id()))),
                ];
                fns.push(J::obj(f));
                continue;
            }
            let path = full_path(tcx, did.to_def_id());
            let span = tcx.def_span(did);
            let mut f: Vec<(&str, J)> = vec![
                ("path", jstr(path)),
                ("kind", jstr(format!("{:?}", dk))),
                ("span", cx.span(tcx.hir_span_with_body(tcx.local_def_id_to_hir_id(did)))),
                ("exp", J::Bool(span.from_expansion())),
            ];
            if matches!(dk, DefKind::Fn | DefKind::AssocFn) {
                f.push(("vis", jstr(format!("{:?}", tcx.visibility(did)))));
                let sig = tcx.fn_sig(did).instantiate_identity().skip_norm_wip();
                let sig = sig.skip_binder();
                f.push(("inputs", J::Arr(sig.inputs().iter().map(|t| jstr(ty_str(*t))).collect())));
                f.push(("output", jstr(ty_str(sig.output()))));
                f.push(("unsafe_fn", J::Bool(!sig.safety().is_safe())));
                let names: Vec<J> = tcx
                    .fn_arg_idents(did.to_def_id())
                    .iter()
                    .map(|i| jstr(i.map(|i| i.name.to_string()).unwrap_or_default()))
                    .collect();
                f.push(("arg_names", J::Arr(names)));
                // impl parent info
                let parent = tcx.parent(did.to_def_id());
                if let DefKind::Impl { of_trait } = tcx.def_kind(parent) {
                    f.push(("impl_self", jstr(ty_str(tcx.type_of(parent).instantiate_identity().skip_norm_wip()))));
                    if of_trait {
                        let tr = tcx.impl_trait_ref(parent).instantiate_identity().skip_norm_wip();
                        f.push(("impl_trait", jstr(canon!(tr.print_only_trait_path().to_string()))));
                        f.push(("impl_trait_def", jstr(full_path(tcx, tr.def_id))));
                    }
                } else if let DefKind::Trait = tcx.def_kind(parent) {
                    f.push(("trait_default", jstr(full_path(tcx, parent))));
                }
            } else {
                f.push(("parent", jstr(full_path(tcx, tcx.typeck_root_def_id(did.to_def_id())))));
            }
            // lint level of unsafe_code at this item
            let hir_id = tcx.local_def_id_to_hir_id(did);
            let lvl = tcx.lint_level_at_node(unsafe_code_lint, hir_id);
            f.push(("unsafe_code_level", jstr(format!("{:?}", lvl.level))));
            // unsafe blocks in body
            let mut uc = UnsafeCounter { blocks: vec![] };
            let hbody = tcx.hir_body_owned_by(did);
            rustc_hir::intravisit::Visitor::visit_body(&mut uc, hbody);
            f.push(("unsafe_blocks", J::Arr(uc.blocks.iter().map(|(s,)| cx.span(*s)).collect())));
            f.push(("mir", cx.body(did)));
            let promoted: Vec<J> = tcx.promoted_mir(did.to_def_id()).iter().map(|b| cx.body_of(did, b)).collect();
            f.push(("promoted", J::Arr(promoted)));
            fns.push(J::obj(f));
        }

        // ADTs, impls, consts
        let mut adts = Vec::new();
        let mut impls = Vec::new();
        let mut consts = Vec::new();
        let mut statics = Vec::new();
        let mut traits = Vec::new();
        for did in tcx.hir_crate_items(()).definitions() {
            let dk = tcx.def_kind(did);
            match dk {
                DefKind::Struct | DefKind::Enum | DefKind::Union => {
                    let adt = tcx.adt_def(did);
                    let mut variants = Vec::new();
                    for (vi, v) in adt.variants().iter_enumerated() {
                        let discr = if adt.is_enum() {
                            jstr(adt.discriminant_for_variant(tcx, vi).val.to_string())
                        } else {
                            J::Null
                        };
                        let fields: Vec<J> = v
                            .fields
                            .iter()
                            .map(|fd| {
                                J::obj(vec![
                                    ("name", jstr(fd.name.to_string())),
                                    ("ty", jstr(ty_str(tcx.type_of(fd.did).instantiate_identity().skip_norm_wip()))),
                                    ("vis", jstr(format!("{:?}", fd.vis))),
                                ])
                            })
                            .collect();
                        variants.push(J::obj(vec![
                            ("name", jstr(v.name.to_string())),
                            ("vi", J::Num(vi.index() as i128)),
                            ("discr", discr),
                            ("fields", J::Arr(fields)),
                        ]));
                    }
                    adts.push(J::obj(vec![
                        ("path", jstr(full_path(tcx, did.to_def_id()))),
                        ("kind", jstr(format!("{:?}", dk))),
                        ("vis", jstr(format!("{:?}", tcx.visibility(did)))),
                        ("repr", jstr(format!("{:?}", adt.repr()))),
                        ("span", cx.span(tcx.def_span(did))),
                        ("variants", J::Arr(variants)),
                    ]));
                }
                DefKind::Impl { of_trait } => {
                    let self_ty = tcx.type_of(did).instantiate_identity().skip_norm_wip();
                    let mut f: Vec<(&str, J)> = vec![
                        ("self", jstr(ty_str(self_ty))),
                        ("span", cx.span(tcx.def_span(did))),
                        ("exp", J::Bool(tcx.def_span(did).from_expansion())),
                    ];
                    if of_trait {
                        let tr = tcx.impl_trait_ref(did).instantiate_identity().skip_norm_wip();
                        f.push(("trait", jstr(canon!(tr.print_only_trait_path().to_string()))));
                        f.push(("trait_def", jstr(full_path(tcx, tr.def_id))));
                        let header = tcx.impl_trait_header(did);
                        f.push(("unsafe_impl", J::Bool(!header.safety.is_safe())));
                        f.push(("polarity", jstr(format!("{:?}", header.polarity))));
                    }
                    let items: Vec<J> = tcx
                        .associated_items(did)
                        .in_definition_order()
                        .map(|it| {
                            J::obj(vec![
                                ("name", jstr(it.name().to_string())),
                                ("kind", jstr(format!("{:?}", it.kind))),
                                ("path", jstr(full_path(tcx, it.def_id))),
                            ])
                        })
                        .collect();
                    f.push(("items", J::Arr(items)));
                    impls.push(J::obj(f));
                }
                DefKind::Const { .. } | DefKind::AssocConst { .. } => {
                    let ty = tcx.type_of(did).instantiate_identity().skip_norm_wip();
                    let mut f: Vec<(&str, J)> = vec![
                        ("path", jstr(full_path(tcx, did.to_def_id()))),
                        ("ty", jstr(ty_str(ty))),
                        ("vis", jstr(format!("{:?}", tcx.visibility(did)))),
                        ("span", cx.span(tcx.def_span(did))),
                    ];
                    let generics = tcx.generics_of(did);
                    let has_body = tcx.hir_maybe_body_owned_by(did).is_some();
                    if generics.count() == 0 && generics.parent_count == 0 && has_body {
                        if let Ok(val) = tcx.const_eval_poly(did.to_def_id()) {
                            if let mir::ConstValue::Scalar(rustc_middle::mir::interpret::Scalar::Int(si)) = val {
                                let bits = si.to_bits_unchecked();
                                let size = si.size().bytes();
                                f.push(("bits", jstr(bits.to_string())));
                                if let ty::Int(_) = ty.kind() {
                                    let sh = 128 - size * 8;
                                    if size > 0 {
                                        let sv = ((bits << sh) as i128) >> sh;
                                        f.push(("int", jstr(sv.to_string())));
                                    }
                                } else {
                                    f.push(("int", jstr(bits.to_string())));
                                }
                            } else if let mir::ConstValue::Slice { .. } = val {
                                if let Some(bytes) = val.try_get_slice_bytes_for_diagnostics(tcx) {
                                    if let Ok(s) = std::str::from_utf8(bytes) {
                                        f.push(("str", jstr(s)));
                                    }
                                }
                            }
                        }
                    }
                    consts.push(J::obj(f));
                }
                DefKind::Static { .. } => {
                    let ty = tcx.type_of(did).instantiate_identity().skip_norm_wip();
                    statics.push(J::obj(vec![
                        ("path", jstr(full_path(tcx, did.to_def_id()))),
                        ("ty", jstr(ty_str(ty))),
                        ("dbg", jstr(format!("{:?}", dk))),
                    ]));
                }
                DefKind::Trait => {
                    let items: Vec<J> = tcx
                        .associated_items(did)
                        .in_definition_order()
                        .map(|it| {
                            J::obj(vec![
                                ("name", jstr(it.name().to_string())),
                                ("kind", jstr(format!("{:?}", it.kind))),
                                ("path", jstr(full_path(tcx, it.def_id))),
                            ])
                        })
                        .collect();
                    traits.push(J::obj(vec![
                        ("path", jstr(full_path(tcx, did.to_def_id()))),
                        ("items", J::Arr(items)),
                    ]));
                }
                _ => {}
            }
        }

        let crate_lvl = tcx.lint_level_at_node(unsafe_code_lint, rustc_hir::CRATE_HIR_ID);
        let mut externs = Vec::new();
        let mut features = Vec::new();
        let mut is_test = false;
        let mut crate_type = String::new();
        let mut extra_filename = String::new();
        let mut i = 0;
        while i < self.args.len() {
            let a = &self.args[i];
            if a == "--extern" && i + 1 < self.args.len() {
                externs.push(jstr(self.args[i + 1].clone()));
                i += 1;
            } else if a == "--cfg" && i + 1 < self.args.len() {
                features.push(jstr(self.args[i + 1].clone()));
                i += 1;
            } else if a == "--test" {
                is_test = true;
            } else if a == "--crate-type" && i + 1 < self.args.len() {
                crate_type = self.args[i + 1].clone();
                i += 1;
            } else if a == "-C" && i + 1 < self.args.len() {
                if let Some(x) = self.args[i + 1].strip_prefix("extra-filename=") {
                    extra_filename = x.to_string();
                }
                i += 1;
            }
            i += 1;
        }
        let top = J::obj(vec![
            ("crate", jstr(crate_name.clone())),
            ("extra_filename", jstr(extra_filename.clone())),
            ("crate_type", jstr(crate_type)),
            ("is_test", J::Bool(is_test)),
            ("cfg", J::Arr(features)),
            ("externs", J::Arr(externs)),
            ("unsafe_code_level", jstr(format!("{:?}", crate_lvl.level))),
            ("unsafe_code_src", jstr(format!("{:?}", crate_lvl.src))),
            ("fns", J::Arr(fns)),
            ("adts", J::Arr(adts)),
            ("impls", J::Arr(impls)),
            ("consts", J::Arr(consts)),
            ("statics", J::Arr(statics)),
            ("traits", J::Arr(traits)),
        ]);
        let mut s = String::new();
        top.write(&mut s);
        let tag = if is_test { "-test" } else { "" };
        let path = format!("{}/{}{}{}.json", out_dir, crate_name, extra_filename, tag);
        let tmp = format!("{}.tmp{}", path, std::process::id());
        std::fs::write(&tmp, s).expect("write facts");
        std::fs::rename(&tmp, &path).expect("rename facts");
        Compilation::Continue
    }
}

fn main() {
    let mut args: Vec<String> = std::env::args().collect();
    // RUSTC_WORKSPACE_WRAPPER passes the real rustc as argv[1]
    if args.len() > 1 && (args[1].ends_with("rustc") || args[1].contains("/rustc")) {
        args.remove(1);
    }
    let mut cb = Cb { args: args.clone() };
    rustc_driver::run_compiler(&args, &mut cb);
}
