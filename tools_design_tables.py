#!/usr/bin/env python3
"""Regenerate the generated blocks of DESIGN.md (between <!-- BEGIN:x --> / <!-- END:x --> markers):
asbuilt  - obligations and rule instances per property, from evidence/*.json of the last run;
seeded   - which checks catch which independently seeded change (seeded/*/meta.json);
selftest - the self-test corpus per property and rule (selftest/corpus.json)."""
import glob, json, os, re
V = os.path.dirname(os.path.abspath(__file__))

def asbuilt():
    out = ["| id | obligations on the current tree | rules (instances) |", "|----|------|------|"]
    for i in range(1, 21):
        P = "C%02d" % i
        c = json.load(open("%s/evidence/%s.json" % (V, P)))["coverage"]
        kf = c.get("known_findings_matched", 0)
        out.append("| %s | %d (%d discharged%s) | %s |" % (P, c["obligations"], c["discharged"], ", %d known finding" % kf if kf else "",
                   "; ".join("%s %d" % (r, n) for r, n in sorted(c["rule_instances"].items()))))
    return "\n".join(out)

def first_hunk(d):
    files = re.findall(r"^\+\+\+ b/(\S+)", open(d + "/patch.diff").read(), re.M)
    return ", ".join(os.path.relpath(f, "crates") for f in files)

def seeded():
    out = ["| change | files touched | fired (own property first) | rule instances of the own property that fired |", "|---|---|---|---|"]
    n = own = anyc = 0
    for d in sorted(glob.glob(V + "/seeded/*/")):
        name = os.path.basename(d.rstrip("/"))
        m = json.load(open(d + "meta.json"))
        P = m["breaks_property"]
        fired = m.get("checks_fired", {})
        n += 1
        own += P in fired
        anyc += bool(fired)
        order = ([P] if P in fired else []) + sorted(k for k in fired if k != P)
        inst = "; ".join(re.sub(r"\s+", " ", x)[:70] for x in fired.get(P, [])[:3]) or ("**missed by %s**" % P if fired else "**missed**")
        out.append("| %s | %s | %s | %s |" % (name, first_hunk(d), ", ".join(order) or "—", inst.replace("|", "\\|")))
    out.append("")
    out.append("%d confirmed changes; %d detected by the check of the property they break, %d by some check." % (n, own, anyc))
    return "\n".join(out)

def selftest():
    c = json.load(open(V + "/selftest/corpus.json"))["variants"]
    by = {}
    for v in c:
        by.setdefault(v["prop"], []).append(v)
    out = ["| id | variants | rule:key expected to fire (variant name) |", "|---|---|---|"]
    for P in sorted(by):
        out.append("| %s | %d | %s |" % (P, len(by[P]), "; ".join("%s:%s (%s)" % (v.get("rule", "?"), str(v.get("key", "?"))[:40], v["name"]) for v in by[P]).replace("|", "\\|")))
    out.append("")
    out.append("%d variants." % len(c))
    return "\n".join(out)

p = V + "/DESIGN.md"
s = open(p).read()
for name, fn in (("asbuilt", asbuilt), ("seeded", seeded), ("selftest", selftest)):
    b, e = "<!-- BEGIN:%s -->" % name, "<!-- END:%s -->" % name
    if b in s and e in s:
        s = s[:s.index(b) + len(b)] + "\n" + fn() + "\n" + s[s.index(e):]
        print("updated", name)
    else:
        print("marker missing:", name)
open(p, "w").write(s)
