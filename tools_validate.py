#!/usr/bin/env python3
"""Validate MANIFEST.json and evidence files against the schemas (run with python3-vt)."""
import json, sys, glob
import jsonschema
ok = True
try:
    jsonschema.validate(json.load(open('/verif/MANIFEST.json')), json.load(open('/root/.vp/MANIFEST.schema.json')))
    print("MANIFEST ok")
except Exception as e:
    ok = False; print("MANIFEST invalid:", str(e)[:500])
es = json.load(open('/root/.vp/EVIDENCE.schema.json'))
for p in sorted(glob.glob('/verif/evidence/C*.json')):
    try:
        jsonschema.validate(json.load(open(p)), es)
    except Exception as e:
        ok = False; print(p, "invalid:", str(e)[:500])
print("evidence files checked:", len(glob.glob('/verif/evidence/C*.json')))
sys.exit(0 if ok else 1)
