#!/usr/bin/env python3
import json, glob, os
rows = []
for d in sorted(glob.glob('/verif/seeded/*/meta.json')):
    m = json.load(open(d))
    rows.append((os.path.basename(os.path.dirname(d)), m['breaks_property'], m.get('detected_by_own_property'), sorted(m.get('checks_fired', {}))))
for r in rows:
    print("%-8s own=%-5s fired=%s" % (r[0], r[2], ",".join(r[3]) or "-"))
print(len(rows), "confirmed seeded changes;", sum(1 for r in rows if r[3]), "detected by some check;", sum(1 for r in rows if r[2]), "by the check of their own property")
