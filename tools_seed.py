#!/usr/bin/env python3
"""tools_seed.py <PID>: confirm the sub-agent's seeded changes in its scratch worktree (/tmp/wt-<PID>) and run every check against them.
For each out/patchK.diff: demo passes on the clean tree; with the patch the workspace builds, the full suite passes and the demo fails;
then all 20 checks are run on the patched worktree.  Confirmed changes are stored under /verif/seeded/<PID>-K/."""
import json, os, re, shutil, subprocess, sys
pid = sys.argv[1]
# optional second argument: round number (round 2 worktrees are /tmp/wt2-<PID>, stored as <PID>-3..5)
rnd = int(sys.argv[2]) if len(sys.argv) > 2 else 1
wt = ("/tmp/wt-" if rnd == 1 else "/tmp/wt%d-" % rnd) + pid
koff = {1: 0, 2: 2, 3: 5, 4: 7, 5: 9, 6: 11, 7: 13, 8: 15}[rnd]
out = wt + "/out"
env = dict(os.environ, CARGO_NET_OFFLINE="true")
def sh(cmd, **kw):
    return subprocess.run(cmd, shell=True, cwd=wt, env=env, stdout=subprocess.PIPE, stderr=subprocess.STDOUT, text=True, **kw)
def clean():
    sh("git checkout -- . && git clean -fdq -e out -e target")
summary = []
for k in (1, 2, 3):
    patch = "%s/patch%d.diff" % (out, k)
    if not os.path.exists(patch):
        continue
    clean()
    md = open("%s/demo%d.md" % (out, k)).read() if os.path.exists("%s/demo%d.md" % (out, k)) else ""
    m = re.search(r"(crates/[\w/-]+/tests/demo%d\.rs)" % k, md)
    dest = m.group(1) if m else None
    m2 = re.search(r"cargo test [^\n`]*--test demo%d[^\n`]*" % k, md)
    cmd = m2.group(0) if m2 else None
    rec = {"property": pid, "k": k, "demo_dest": dest, "demo_cmd": cmd}
    if not dest or not cmd:
        rec["status"] = "cannot locate demo placement/command in demo%d.md" % k
        summary.append(rec); continue
    if "--offline" not in cmd:
        cmd += " --offline"
    os.makedirs(os.path.dirname(os.path.join(wt, dest)), exist_ok=True)
    shutil.copy("%s/demo%d.rs" % (out, k), os.path.join(wt, dest))
    r0 = sh(cmd)
    rec["demo_clean_passes"] = r0.returncode == 0
    ra = sh("git apply %s" % patch)
    if ra.returncode != 0:
        rec["status"] = "patch does not apply: " + ra.stdout[-300:]
        summary.append(rec); clean(); continue
    r1 = sh(cmd)
    rec["demo_patched_fails"] = r1.returncode != 0
    os.remove(os.path.join(wt, dest))
    rs = sh("cargo test --workspace --offline 2>&1 | grep -E '^test result|error(\\[|:)'")
    passed = sum(int(x) for x in re.findall(r"(\d+) passed", rs.stdout))
    failed = sum(int(x) for x in re.findall(r"(\d+) failed", rs.stdout))
    rec["suite"] = "%d passed, %d failed" % (passed, failed)
    rec["suite_ok"] = failed == 0 and passed >= 246 and "error" not in rs.stdout
    # run all checks against the patched worktree
    fired = {}
    evd = "/tmp/essb-seed-ev-%s-%d" % (pid, rnd)
    os.makedirs(evd, exist_ok=True)
    for i in range(1, 21):
        P = "C%02d" % i
        r = subprocess.run(["./verif", "check", P], cwd="/verif", env=dict(os.environ, ESSB_REPO=wt, ESSB_EVIDENCE_DIR=evd), stdout=subprocess.PIPE, stderr=subprocess.STDOUT, text=True)
        if r.returncode == 1:
            fired[P] = [l.strip()[10:150] for l in r.stdout.splitlines() if "violated:" in l][:4]
        elif r.returncode != 0:
            fired[P] = ["CHECK ERROR exit %d: %s" % (r.returncode, r.stdout[-200:])]
    shutil.rmtree(evd, ignore_errors=True)
    rec["checks_fired"] = fired
    rec["detected_by_own_property"] = pid in fired
    rec["confirmed"] = bool(rec["demo_clean_passes"] and rec["demo_patched_fails"] and rec["suite_ok"])
    clean()
    if rec["confirmed"]:
        d = "/verif/seeded/%s-%d" % (pid, k + koff)
        os.makedirs(d, exist_ok=True)
        shutil.copy(patch, d + "/patch.diff")
        shutil.copy("%s/demo%d.rs" % (out, k), d + "/demo.rs")
        if md:
            open(d + "/demo.md", "w").write(md)
        meta = {"breaks_property": pid, "origin": "independent sub-agent given only the property text and a scratch worktree",
                "needs_to_manifest": (re.search(r"(?is)(circumstance|manifest|trigger)[^\n]*\n?(.{0,600})", md).group(0)[:700] if re.search(r"(?i)(circumstance|manifest|trigger)", md) else md[:600]),
                "what_was_run": ["demo on the clean worktree: pass (%s)" % cmd, "git apply patch.diff; cargo build/test --workspace --offline: %s" % rec["suite"], "demo with the patch: fails",
                                 "ESSB_REPO=<patched worktree> ./verif check C01..C20"],
                "demo_placement": dest, "demo_cmd": cmd, "checks_fired": fired, "detected_by_own_property": rec["detected_by_own_property"]}
        json.dump(meta, open(d + "/meta.json", "w"), indent=1)
    summary.append(rec)
for rec in summary:
    print(json.dumps(rec, indent=1))
