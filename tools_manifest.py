#!/usr/bin/env python3
"""Regenerates MANIFEST.json from the claim table below (kept next to the rules)."""
import json, os

CLAIMS = {
 "C20": {
  "text": "Obligation groups O1-O4 on the two bodies of essential_lock decide, for every caller and every closure, that the closure only ever runs between a successful Mutex::lock on the private field and the drop of that guard (return and unwind edges), and that no API leaks the guard or a reference. Mutual exclusion and visibility then follow from std::sync::Mutex. This is a structural proof relative to std, the right level for a 2-function wrapper whose behaviour under all schedules cannot be sampled.",
  "note": "Trusted: std::sync::Mutex, rustc's borrow/privacy checking, the fact extractor. Fairness is not decided.",
  "technique": "static analysis: MIR dominance / must-pass-through (typestate of the guard), who-may-touch field rule",
  "design_ref": "3/C20",
 },
}

NA_REASON = "rules for this property are not implemented yet in this revision; see DESIGN.md section 3 for the plan"

def main():
    props = [json.loads(l) for l in open('/verif/properties.jsonl')]
    checks = []
    na = []
    for p in props:
        pid = p["id"]
        c = CLAIMS.get(pid)
        if c is None:
            na.append({"property_id": pid, "reason": NA.get(pid, NA_REASON)})
            continue
        checks.append({
            "property_id": pid,
            "quick_cmd": "./verif check %s --tier quick" % pid,
            "thorough_cmd": "./verif check %s --tier thorough" % pid,
            "evidence_file": "/verif/evidence/%s.json" % pid,
            "replay_cmd_template": "./verif replay {path}",
            "engine": "essb-static",
            "level_claimed": {"category": "other", "text": c["text"], "design_ref": c["design_ref"]},
            "level_note": c["note"],
            "technique": c["technique"],
        })
    m = {
        "version": 1,
        "setup_cmd": "./verif setup",
        "hooks": {
            "guard": "essential_base_verif",
            "enable": "no hooks are needed: the checks analyse the unmodified sources (RUSTC_WORKSPACE_WRAPPER=/verif/driver/... cargo +nightly check)",
            "baseline_off_cmd": "cd /repo && cargo test --workspace --no-fail-fast --offline",
            "source_commits": [],
            "add_only": True,
        },
        "engines": [{
            "name": "essb-static", "path": "/verif/verif",
            "serves_properties": [c["property_id"] for c in checks],
            "kind_free_text": "rustc_private fact extractor (MIR/ADT/impl/const facts of the type-checked workspace) + Python rule engine (CFG, dominators, provenance, call graph, table agreement); no code from /repo is executed",
        }],
        "checks": checks,
        "not_applicable": na,
        "notes": "All checks are static analyses of /repo's current working tree. Each claimed property is decided at clause level; the clauses that are not decided are listed in level_claimed.text / DESIGN.md and in every evidence file.",
    }
    json.dump(m, open('/verif/MANIFEST.json', 'w'), indent=1)

NA = {}
if __name__ == "__main__":
    main()
