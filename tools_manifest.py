#!/usr/bin/env python3
"""Regenerates MANIFEST.json from the claim table below (kept next to the rules)."""
import json, os

CLAIMS = {
 "C12": {
  "text": "Decides: source routing of the access ops (ThisAddress / ThisContractAddress read the predicate / contract field of this_solution(); PredicateData* read this_solution().predicate_data; PredicateExists receives the whole set); checked range resolution (usize::try_from, checked_add, slice.get only, the popped words feed (value_ix, len) in the documented order); sibling encodings agree (the VM's and essential-sign's 33-byte public-key encodings have the same structure, recover pops id / 8 / 4 words and rebuilds the compact signature and digest, the 9-word signature layout); every SHA-256 user is new/update(input)/finalize; the PredicateExists pre-image order (len-prefixed slots, contract, predicate, big-endian bytes); five zero words on an unrecoverable signature. Partial claim: byte-length marshalling (pop_bytes rounding/truncation) and cryptographic answers are not decided. Also decided: byte operands (ceil(len/8) words, big-endian bytes in stack order, cut to len), VerifyEd25519 pop order / verify(key, data, signature) / pushed bit, and that every result of the range resolver is the checked sub-slice. The sign crate recovers a key exactly where secp256k1 does (acceptance tables), so the op and essential_sign agree on which signatures yield a key. pop_words hands over the top n words in stack order and removes them. predicate_data fails only where a pop, the range, the lookup or the push fails; the 9th signature word is exactly the recovery id. The checker builds each node's Access from all solutions of the set and the solution index. hash_bytes is SHA-256 of its argument for every input (no special case).",
  "note": "Trusted: sha2, secp256k1, ed25519-dalek.",
  "technique": "static analysis: provenance of call arguments against expected source fields, structural comparison of sibling encoders, call-sequence whitelists",
  "design_ref": "3/C12",
 },
 "C14": {
  "text": "Decides: mapping decides acceptance only through Opcode::try_from and ParseOp::parse_op on one byte iterator (exactly two rejecting paths, Ok only at end of input) - the same two functions the list parser uses; exec_ops/exec_bytecode/eval_ops and the TryFrom impls are single forwarding calls; the index table and bytes are private and written only by try_from_bytes (offset of each accepted opcode byte, after parse_op succeeded), push_op (len before extend with to_bytes), Default and FromIterator via push_op; op(ix) is the first of ops_from(ix), the OpAccess impls are get/op(ix).map(Ok), compute children get a clone of the same accessor. Partial claim: equality of final machine states between the two execution paths follows from these + C13 informally. The shared operand parser decides on the bytes alone (C13-O5 re-evaluated).",
  "note": "Backs the expects in expect_ops_from_indices reviewed under C05/C06.",
  "technique": "static analysis: return tables, who-may-write rule for private fields, exact call-sequence comparison of thin wrappers",
  "design_ref": "3/C14",
 },
 "C18": {
  "text": "Partial claim: round-trip equality over all values is value-level and NOT decided. Decided necessary conditions: big-endian pair and identity layouts of the four fixed-width converters and of Signature <-> [u8; 65]; every serde serializer/deserializer pair branches on is_human_readable with the same polarity and the same family (hex / sequence) on each side; predicate and mutation encoders, size helpers and decoders agree on offsets (linear forms), the list codec writes/reads the count first and advances by encode_size; node_edges is empty exactly for edge_start == MAX and otherwise a checked sub-range; the legacy field names (data, decision_variables) reach the same fields as the current names and only current names are written; Display/FromStr use encode_upper/decode with the same array length. Also decided: derived binary framing (every struct field written unconditionally in order; visit_seq reads one element per field in that order) and that list decoders stop exactly at the end of input. The predicate decoder returns only after reading all four parts; human-readable deserializers accept owned input. words <-> hex text both go through bytes_from_word / word_from_bytes and the hex crate. Predicate::{encode,decode,encoded_size} forward their argument unchanged to the codec functions. The single-mutation reader rejects exactly the five malformed shapes (a key or value of length 0 is accepted). Display of ContentAddress / Signature is one upper-hex string of the whole value; the predicate decoder collects n nodes and m edges.",
  "note": "Trusted: hex, serde, postcard. Breaking any decided clause breaks a round trip; the converse is not claimed.",
  "technique": "static analysis: aggregate-element provenance (layouts), path-condition polarity pairing, symbolic linear forms of offsets, string-literal to field tables of derive-generated visitors",
  "design_ref": "3/C18",
 },
 "C19": {
  "text": "Decides: sign, verify and recover each hash the contract they are given with content_addr and use exactly those 32 bytes as the secp256k1 message digest, signing / recovering with exactly that message, storing the compact signature with its own recovery id (order independence of the digest: sort-before-hash of the contract address, re-evaluated here); malformed recovery ids / signatures take `?` error paths and no unreviewed panic-capable construct is reachable from the signing API or check_signed_contract (panic-path engine); check_signed_contract accepts only after verify and check_contract succeeded; the word encodings are those the VM's recovery op consumes/produces. Partial claim: that tampering changes the recovered key is cryptography (trusted). A signature is accepted exactly when a key can be recovered from it: acceptance tables of recover_from_message, verify_hash, contract::{verify,recover} and check_signed_contract; the predicate encoding behind each address is total and laid out as decoded.",
  "note": "Trusted: secp256k1; C17 for the contract address.",
  "technique": "static analysis: provenance of digests through the call chain, return tables, panic-site enumeration with dominance-based discharge",
  "design_ref": "3/C19",
 },
 "C01": {
  "text": "Partial claim. The behavioural equivalence with the graph reference semantics (exactly-once execution, numbering independence, concatenation order, gas/data-output equality) is NOT decided by static analysis. Decided clauses: graph validation (parent map, level order) dominates every site that can start a node program; an empty level while nodes remain (cycle) and invalid edge ranges are errors; every edge value used as a node index is compared with nodes.len(); the leaf interpretation table is exactly [1] -> satisfied, [2] -> data output of vm.memory, anything else -> unsatisfied, with leaf = node without edges and parents exporting (stack, memory); parent inputs are taken from the parent map in ascending order and each node runs the program of its own address. Deferral closure and the run-mode split are decided under C03. Also decided: the level-order bookkeeping per edge (in-degree = entries of the parent list, one decrement per edge of a finished parent, removal after scheduling), and that per-solution data (cross-pass cache, predicate, index, outputs, computed mutations) stays with its solution by index. The node-output maps only grow during the level loop; node_edges answers None for malformed ranges (table). Stack / Memory built from concatenated parent results are accepted exactly up to the VM limits; deferral is decided exactly (C15-R2/R3, C03-R3 re-evaluated). The deferred set is closed under descendants and the Effects flags are distinct single bits (C03-R5, C15-R1 re-evaluated). The verdict of one graph is Ok only after every level ran and nothing failed or was unsatisfied (return table); each parent output is taken from the cross-pass cache first and from this pass's cache otherwise, at both start sites; every node's VM is given the whole set and the index of the solution being checked. The gas of a graph counts every executed node once (C07-R5 re-evaluated).",
  "note": "These are necessary conditions of the property; breaking any of them changes verdicts. The sufficient direction is out of reach for this technique family.",
  "technique": "static analysis: dominance of validation over execution sites, return tables of the graph functions, match table of the leaf interpretation",
  "design_ref": "3/C01",
 },
 "C08": {
  "text": "Decides the dispatch and the scalar operations, for which operator, operand order and operand type in MIR are the semantics: all 62 spec ops reach the handler of the reviewed dispatch table; comparison/logic/bit ops are exactly the operator named by asm.yml's stack_out expression on (a, b) in that order with From<bool>; Add/Sub/Mul/Div/Mod are i64::checked_* with None -> error and no other integer op; Shl/Shr/ShrI have the right operand types (logical vs arithmetic) and are dominated by the 0..64 bound check; pop2 returns [below-top, top]; popN_pushM apply f to the popped words in order and push only its `?`-checked result; the error index is pc before any update; memory readers take shared references. Partial claim: data-movement ops (SwapIndex, DupFrom, Select*, Reserve, Drop, Load/Store, ranges, sets) are value-level and declined. Also decided (R5) stack effect of every fixed-arity op equals asm.yml and operands are popped, never peeked; (R6) the positions addressed by DupFrom, SwapIndex, Load, Store, Reserve, SelectRange, Drop/pop_len_words*, EqRange, EqSet/decode_set, Alloc, Free and the memory Load/Store/LoadRange/StoreRange ops as symbolic linear forms of the length and the popped operands, their bound guards as linear comparisons, the length being read after the operands are popped, and the operand wiring of step_op_memory. Each memory op and the from-words constructors succeed only under their bound (one Ok return under the bound comparison, counted failing returns). Wiring of the ParentMemory ops: the checked Memory::load / load_range on the innermost parent memory with the popped operands in spec order. Select / SelectRange conditions go through bool_from_word and 1 keeps the top (C09-R1 re-evaluated).",
  "note": "tables/dispatch.json is the reviewed dispatch table of the pinned tree. asm.yml stack_out expressions are the oracle for scalar ops.",
  "technique": "static analysis: MIR match tables vs a reviewed dispatch table; return-value provenance of handler closures vs expressions parsed from asm.yml; operand-type and dominance checks",
  "design_ref": "3/C08",
 },
 "C09": {
  "text": "Decides, by comparing each function's return table (returned value per path + the normalised conditions dominating it) with the specified table: bool_from_word is exactly 0/1; every condition operand goes through it and every branch on it is dominated by its success; jump_if's four outcomes (fall through, JumpedToSelf on 0, checked_sub on negative, checked_add otherwise); halt_if/panic_if; eval = exec error or bool_from_word(last) with InvalidEvaluation otherwise; the pc plumbing of Vm::exec per control-flow variant and which variants leave the loop; RepeatEnd/Repeat bookkeeping tables (pop exactly when done, counter steps by one, stored resume index pc+1, initial counters). Partial claim: trip counts and counter values over whole executions follow from these tables only informally. A Repeat is accepted exactly while the repeat stack holds fewer than its limit of slots. Both op accessors end execution for any pc at or past the last op (C14-R4 re-evaluated).",
  "note": "Return tables are semantic summaries read from MIR; a refactor that changes the shape of an expression without changing behaviour must be re-reviewed.",
  "technique": "static analysis: per-path return tables (provenance terms + dominating path-condition atoms) compared with specified tables",
  "design_ref": "3/C09",
 },
 "C02": {
  "text": "Decides determinism under every schedule by enumeration of every nondeterminism source in essential-vm and essential-check: no unsafe code (so parallel closures share state only through Sync types), every rayon consumer listed with its resolved output type and required to be order-preserving, no iteration over HashMap/HashSet, a shared-state inventory (no locks/atomics/cells/channels/thread-locals; the single OnceLock's initialiser captures only the shared solutions), no ambient inputs (time, env, thread identity, pool size, randomness, I/O, addresses), and the shared cache map only touched outside the parallel section. Since the enumeration is over the type-checked program, it covers all schedules and pool sizes, which no finite set of runs does. Per-split-state rayon adaptors (map_init, map_with, fold*) are flagged as schedule-dependent. Rayon is driven only from the three reviewed parallel sites; no once-initialiser waits on the rayon pool.",
  "note": "Trusted: rayon's ordering contract for collect/partition/unzip into Vec/BTreeMap; Rust's Send/Sync checking; caller-supplied traits are deterministic. Not decided: equality with a sequential reference evaluation as a behavioural statement.",
  "technique": "static analysis: whole-program enumeration of nondeterminism sources (resolved rayon consumers, unordered iteration, shared-state types, ambient calls) over MIR and type facts",
  "design_ref": "3/C02",
 },
 "C10": {
  "text": "Decides the structural clauses of Compute: deterministic index-ordered join (rayon consumer into Vec, first error by index), the fork guarded by breadth >= 1 and depth < MAX_COMPUTE_DEPTH = 1, the child's initial state table (pc+1, parent stack clone + one guarded push of the index, fresh memory, parent-memory snapshot, cloned repeat/cache/access/op accessor, same gas limit and state), the join (one alloc of the summed child lengths dominating all stores, stores in result order at a pointer starting at the old length and advancing by each child's length, pc = max, halt = disjunction, gas = saturating sum, child error propagated first), and that the parent's stack is popped once. Partial claim: `as if run one after another` follows from C02 + these tables informally. compute fails for exactly the documented reasons (missing breadth word, breadth < 1, depth reached, child error, join error). Every capture of the child closure resolves to the parent's live state at the fork (not to an earlier snapshot). Children read parent memory through the checked accessors, and the join's alloc succeeds exactly while the combined length is within the limit. step_op hands compute the executing VM's own live state field by field (including a clone of its parent-memory stack, the depth counter); an invalid HaltIf condition is a child error (C09 re-evaluated).",
  "note": "Bounds of alloc/store are C05; gas limit handling is C07.",
  "technique": "static analysis: aggregate-field provenance table for the child Vm, dominance and def-use of the join closures, resolved rayon consumer types",
  "design_ref": "3/C10",
 },
 "C04": {
  "text": "Decides the structural necessary conditions of order independence: the set address sorts the very slice it hashes and every set-address entry point reaches that leaf; per-solution addresses depend on one solution only (plain content_addr mapped over the solutions); the duplicate-slot detection must span all solutions and be keyed by contract. The last rule is violated on the pinned tree (open known finding K2). Partial claim: equality of verdict/gas/computed mutations under permutation is not decided as a behavioural fact. Also decided: set validation iterates all solutions plainly (no take/skip/filter adaptor, Ok only after the last one), and per-solution data is matched by solution index (C01-R6 re-evaluated). The duplicate set used while computing mutations is fresh for every solution (C16-R4 re-evaluated). Within a solution at most one value per key (C16-R3); PredicateExists is answered from one hash per solution of the whole set (C12-R4); comparisons used for canonicalisation are the derived structural ones.",
  "note": "Known finding K2 (per-solution duplicate set) is recorded, not repaired: the repair changes which sets validation accepts. Relies on C02 (determinism) for the informal step from structure to behaviour.",
  "technique": "static analysis: dominance (sort before hash on the same slice), call-graph delegation table, loop-scope analysis of the duplicate-detection collection",
  "design_ref": "3/C04",
 },
 "C15": {
  "text": "Decides both analyses exactly at the level of their tables: every Effects flag has exactly one `|=` arm reachable only for the op variant of the same name; every `return true` of the byte scan is guarded by byte == opcode(G::V) and effects.contains(Effects::V) for the same V with the byte taken from the main iterator, all flags covered, `false` only at end of input; every spec op with immediates advances the same iterator by exactly num_arg_bytes without returning and nothing else advances it. With C13 (unique opcode bytes) this yields the `exactly when` of the property for all byte strings. The checker's deferral query names exactly the Post* flags (C03-R3 re-evaluated).",
  "note": "Trusted: bitflags (contains, |=), Iterator::take/for_each; C13 for opcode injectivity.",
  "technique": "static analysis: path-condition atoms over MIR switch edges paired with flag constants; iterator-advance whitelist checked against asm.yml",
  "design_ref": "3/C15",
 },
 "C17": {
  "text": "Decides: sort-before-hash on the very slice hashed for contracts (salt last) and sets; delegation agreement of all address entry points per type down to one SHA-256 leaf with unmodified arguments; SHA-256 users are new/update(input)/finalize; encoder, size helper and decoder agree on the predicate layout - widths are read off the encoder's iterator chain and closures, the size helper's linear form must equal them, the decoder's four ranges must be 0..2, 2..2+34n, 2+34n..4+34n, 4+34n..4+34n+2m; every variable-length part is length-prefixed with constant widths (injectivity skeleton). Partial claim: injectivity of postcard and SHA-256 collision resistance are trusted. Also decided: the serde pre-hash encoding is positional and complete (every declared field written unconditionally in declaration order). The Predicate address is the hash of the encoding exactly when the predicate is encodable; the predicate decoder returns only after reading all four parts. The comparisons used for canonicalisation are the derived structural PartialEq/Eq/Ord/Hash. Predicate::{encode,decode,encoded_size} forward their argument unchanged to the codec functions. hash_bytes is SHA-256 of its argument for every input; the decoder collects n nodes and m edges.",
  "note": "Trusted: sha2, postcard, slice::sort, derived Ord of ContentAddress.",
  "technique": "static analysis: dominance, call-graph delegation table, symbolic linear forms over MIR arithmetic compared between encoder, size helper and decoder",
  "design_ref": "3/C17",
 },
 "C03": {
  "text": "Decides the structural clauses that make post-state reads see pre-state + all of the set's mutations: the pre/post x own/extern routing table (derived from variant names), that the first pass runs with an empty post view, that the insert loop covers every solution and mutation of the set returned by the first pass keyed by (contract, key), that the second pass is dominated by the first and given the built view, that the view forwards requests unchanged and delegates to the pre-state where nothing is proposed, that the deferral mask contains every Post* flag, the run-mode split, and that deferral is closed under descendants (fixed point). Partial claim: the overlay arithmetic is not decided. Also decided: the per-key overlay loop (a mutated key yields the mutation's value, any other key one value read from the pre-state at the same key; key advanced by next_key once per value; loop ends at num_values or the last key) and next_key's carry table. The Effects flags are distinct single bits (C15-R1 re-evaluated). Second-pass nodes receive their first-pass parents' outputs (C01-R4), and the set the overlay is built from keeps every declared mutation (only `push` on state_mutations). The post view answers only through the overlay helper (return table); the list decoder that feeds computed mutations into the overlay reads up to the end of its input (C18-R3 re-evaluated).",
  "note": "Depends on C15 (exactness of the byte scan). Value-level clauses (next_key carry, straddling ranges, deletion) are not decided.",
  "technique": "static analysis: MIR match tables, provenance of call arguments, dominance between passes, natural-loop structure (fixed-point detection)",
  "design_ref": "3/C03",
 },
 "C11": {
  "text": "Decides routing (view x contract) for the four key-range ops, that key and count handed to the state are exactly the popped components and the external address is the 4 popped words, that state errors are wrapped unchanged, that the module never grows memory and only pops the stack, and the layout skeleton of the writer (pair area of 2*len, [addr,len] store then value store per value, cursors advancing by 2 and len). Partial claim: the popping order on all stacks and over/under-delivery by the state are not decided. The operand readers fail only when a pop or the usize conversion fails. write_values_to_memory fails only where a conversion, the address sum or a store fails. The post view answers through the overlay helper and propagates state errors; the deferral scan is exact (C03-R2/R7, C15-R2/R3 re-evaluated).",
  "note": "Bounds of the stores are C05 (store_range is bounds-checked).",
  "technique": "static analysis: MIR match tables, provenance of call arguments, callee whitelists per module (frame rule), loop/def-use structure of the writer",
  "design_ref": "3/C11",
 },
 "C07": {
  "text": "Decides the structural clauses of gas accounting on every path of Vm::exec: the op-executing call is dominated by success of checked_add(total, op_gas_cost(op)) filtered by `sum <= gas_limit.total` for the very op it executes (so an op that would exceed the limit has no effect); every definition of the running total is 0 or the payload of such a checked, limit-filtered sum, including the gas joined from compute children; no unchecked u64 arithmetic exists in essential-vm / essential-check; the checker sums with saturating_add. Partial claim: the value statement `reported gas = sum of executed costs` is decided only as this structure. Also decided: Iterator::sum/product over u64 counts as raw arithmetic; the limit captured by the compute closure is resolved to the operand the parent passes (its own parameter, or a rebuilt limit whose total derives from it); inside the arm of each node kind no path leaves without adding the node's gas. The compute gas is joined on every path through the ComputeResult arm of Vm::exec. Raw u64 operators on references (as in derive-generated Display arguments) count as raw gas arithmetic. The joined compute gas is the sum over all children (C10-R4 re-evaluated). The public entry points hand Vm::exec the caller's limit unchanged (C14-R2 re-evaluated).",
  "note": "Assumes OpGasCost is a pure function. Observation K1 (children each receive the full limit) is documented, not claimed as a violation. Termination follows informally from R1 with positive costs.",
  "technique": "static analysis: MIR dominance (check-before-use), def-use enumeration of the gas accumulator, operator/type scan for unchecked u64 arithmetic",
  "design_ref": "3/C07",
 },
 "C16": {
  "text": "Decides exactly the accept/reject boundary of every validator limit: each of the eight limit constants is compared once, evaluates to the documented number, is compared with the documented quantity, rejects exactly when quantity > LIMIT (normalised relation, so >= for > is caught), raises the documented error and is unconditional; validators are guarded by success of their sub-validators on the right arguments over whole collections; the per-solution duplicate-key test and the declared-vs-computed duplicate test are present and probe the right set. A boundary is a single comparison per limit, so its exact form for all inputs is readable from MIR. Signed-contract acceptance equals verify and check_contract succeeding, and verify adds no condition beyond recoverability (C19-R6); the computed-key duplicate set is fresh per solution.",
  "note": "Not decided: std's len(), the sum in state_mutations_len (C06), the signature check itself (C19).",
  "technique": "static analysis: normalised path-condition atoms over MIR switch edges compared with a limit table; dominance for call plumbing",
  "design_ref": "3/C16",
 },
 "C05": {
  "text": "Decides, for every program and operand: (a) no panic-capable construct (overflow/bounds/division Assert, panicking std call, panic!/unreachable!) is reachable from Vm::{exec,eval,..}/step_op* unless it is discharged by a structural rule or by a reviewed table line whose recorded dominating guards are re-verified on each run; an Assert(Overflow) site covers both build modes; (b) every function that can mutate the inner vector of Stack/Memory/Repeat or the parent-memory stack is enumerated and growth is only reachable under the right comparison with the right limit constant (4096/10240/4096/1). This is an exhaustive enumeration over all paths of the type-checked program, which no finite test set gives. It is a review gate: a new unguarded panic-capable site, a removed/weakened guard or a new writer is reported. Also decided: a child VM cloning the parent-memory stack is created only after the guarded depth push; the construction-time validation (C14 R1/R3) and the join arithmetic (C10 R4) that reviewed `expect`s cite are re-evaluated; reviewed panic sites may carry caller-side guards that are re-checked at every call site. The call graph includes the `?` conversions (<F as From<E>>::from); no conversion that builds OpError::Compute/StateRead is reachable from a non-compute step function. The width of the arithmetic is part of a reviewed overflow site: the same operator at another integer width is an unreviewed site.",
  "note": "Trusted: std callees outside the panic table are total (listed in evidence); third-party crates; table reasons that rest on caller-side invariants (each marked in tables/panic_sites.json). Not decided: which error is returned; termination.",
  "technique": "static analysis: call-graph reachability + MIR panic-site enumeration with dominance-based guard discharge; who-may-write rule for bounded containers",
  "design_ref": "3/C05",
 },
 "C06": {
  "text": "Same panic-path engine over the closure of the checker entry points, the predicate/mutation/bytecode decoders and BytecodeMapped, plus rule RA: every allocation sized by a value must be sized by a constant, the length of an existing collection, a min() with such, or a value compared against a limit. Decides totality on all inputs at the level of 'no reachable unreviewed panic site / no untrusted allocation size'. Reviewed panic sites whose reason is a caller-side fact carry `caller:` guards re-checked at every call site / closure creation. No initialiser run under OnceLock::get_or_init drives the rayon pool. The width of the arithmetic is part of a reviewed overflow site.",
  "note": "Trusted as for C05. Not decided: unbounded work proportional to an operand (K5 in DESIGN.md), stack exhaustion.",
  "technique": "static analysis: call-graph reachability + MIR panic-site enumeration with dominance-based guard discharge; allocation-size provenance rule",
  "design_ref": "3/C06",
 },
 "C13": {
  "text": "The codec is generated, table-driven code; the property reduces to agreement of finite tables which is decided exactly (about 1050 obligations): the six tables recovered from MIR (TryFrom<u8>, From<opcode> for u8 + discriminants, ToBytes + bytes iterators, ParseOp, ToOpcode, short constants) agree with asm.yml read independently and with the pinned opcode table, immediates are exactly num_arg_bytes big-endian bytes both ways, and the streaming functions add no decision. Both round-trip directions and unambiguity follow by the two-line argument recorded in the evidence. Also decided: the byte-level effects scanner (a second reader of the encoding) skips exactly num_arg_bytes after each opcode with an immediate. A short immediate is detected only by the byte iterator running dry (no size-hint or other pre-check) in every generated parse_op. The generated byte iterators implement `next` only.",
  "note": "Trusted: PyYAML's reading of asm.yml; rustc's lowering of match tables; tables/opcodes_pinned.json.",
  "technique": "static analysis: table extraction from MIR switch/aggregate structure, cross-checked against the YAML specification and a pinned table",
  "design_ref": "3/C13",
 },
 "C20": {
  "text": "Obligation groups O1-O4 on the two bodies of essential_lock decide, for every caller and every closure, that the closure only ever runs between a successful Mutex::lock on the private field and the drop of that guard (return and unwind edges), and that no API leaks the guard or a reference. Mutual exclusion and visibility then follow from std::sync::Mutex. This is a structural proof relative to std, the right level for a 2-function wrapper whose behaviour under all schedules cannot be sampled.",
  "note": "Trusted: std::sync::Mutex, rustc's borrow/privacy checking, the fact extractor. Fairness is not decided.",
  "technique": "static analysis: MIR dominance / must-pass-through (typestate of the guard), who-may-touch field rule",
  "design_ref": "3/C20",
 },
}

NA_REASON = "rules for this property are not implemented yet in this revision; see DESIGN.md section 3 for the plan"

def main():
    props = [json.loads(l) for l in open('/verif/properties.jsonl')]
    checks = []
    na = []
    for p in props:
        pid = p["id"]
        c = CLAIMS.get(pid)
        if c is None:
            na.append({"property_id": pid, "reason": NA.get(pid, NA_REASON)})
            continue
        checks.append({
            "property_id": pid,
            "quick_cmd": "./verif check %s --tier quick" % pid,
            "thorough_cmd": "./verif check %s --tier thorough" % pid,
            "evidence_file": "/verif/evidence/%s.json" % pid,
            "replay_cmd_template": "./verif replay {path}",
            "engine": "essb-static",
            "level_claimed": {"category": "other", "text": c["text"], "design_ref": c["design_ref"]},
            "level_note": c["note"],
            "technique": c["technique"],
        })
    m = {
        "version": 1,
        "setup_cmd": "./verif setup",
        "hooks": {
            "guard": "essential_base_verif",
            "enable": "no hooks are needed: the checks analyse the unmodified sources (RUSTC_WORKSPACE_WRAPPER=/verif/driver/... cargo +nightly check)",
            "baseline_off_cmd": "cd /repo && cargo test --workspace --no-fail-fast --offline",
            "source_commits": [],
            "add_only": True,
        },
        "engines": [{
            "name": "essb-static", "path": "/verif/verif",
            "serves_properties": [c["property_id"] for c in checks],
            "kind_free_text": "rustc_private fact extractor (MIR/ADT/impl/const facts of the type-checked workspace) + Python rule engine (CFG, dominators, provenance, call graph, table agreement); no code from /repo is executed",
        }],
        "checks": checks,
        "not_applicable": na,
        "notes": "All checks are static analyses of /repo's current working tree. Each claimed property is decided at clause level; the clauses that are not decided are listed in level_claimed.text / DESIGN.md and in every evidence file.",
    }
    json.dump(m, open('/verif/MANIFEST.json', 'w'), indent=1)

NA = {}
if __name__ == "__main__":
    main()
