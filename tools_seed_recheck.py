#!/usr/bin/env python3
"""Re-run every check against every confirmed seeded change (/verif/seeded/*/patch.diff applied to a scratch copy of /repo) and update meta.json."""
import json, glob, os, shutil, subprocess, sys, tempfile
only = sys.argv[1:]
for d in sorted(glob.glob('/verif/seeded/*/')):
    name = os.path.basename(d.rstrip('/'))
    if only and name not in only:
        continue
    S = tempfile.mkdtemp(prefix="essb-seed-", dir="/tmp")
    try:
        subprocess.check_call(["rsync", "-a", "--exclude", "target", "--exclude", ".git", "/repo/", S + "/repo/"])
        r = subprocess.run(["patch", "-p1", "-s", "--no-backup-if-mismatch", "-i", d + "patch.diff"], cwd=S + "/repo", stdout=subprocess.PIPE, stderr=subprocess.STDOUT, text=True)
        if r.returncode != 0:
            print(name, "PATCH DOES NOT APPLY", r.stdout[-200:]); continue
        fired = {}
        os.makedirs(S + "/ev")
        for i in range(1, 21):
            P = "C%02d" % i
            rr = subprocess.run(["./verif", "check", P], cwd="/verif", env=dict(os.environ, ESSB_REPO=S + "/repo", ESSB_EVIDENCE_DIR=S + "/ev"), stdout=subprocess.PIPE, stderr=subprocess.STDOUT, text=True)
            if rr.returncode == 1:
                fired[P] = [l.strip()[10:170] for l in rr.stdout.splitlines() if "violated:" in l][:4]
            elif rr.returncode != 0:
                fired[P] = ["CHECK ERROR exit %d: %s" % (rr.returncode, rr.stdout[-300:])]
        m = json.load(open(d + "meta.json"))
        m["checks_fired"] = fired
        m["detected_by_own_property"] = m["breaks_property"] in fired
        json.dump(m, open(d + "meta.json", "w"), indent=1)
        print("%-8s own=%-5s fired=%s" % (name, m["detected_by_own_property"], ",".join(sorted(fired)) or "-"))
    finally:
        shutil.rmtree(S, ignore_errors=True)
