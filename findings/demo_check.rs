use essential_asm::{self as asm, short::*, Op};
use essential_check::solution::{self, CheckPredicateConfig};
use essential_types::{predicate::{Node, Predicate, Program}, solution::{Mutation, Solution, SolutionSet}, ContentAddress, PredicateAddress};
use essential_vm::StateRead;
use std::{collections::HashMap, panic::{catch_unwind, AssertUnwindSafe}, sync::Arc};

#[derive(Clone)]
struct St;
impl StateRead for St { type Error = String; fn key_range(&self, _c: ContentAddress, _k: Vec<i64>, n: usize) -> Result<Vec<Vec<i64>>, String> { Ok(vec![vec![]; n.min(4)]) } }

fn prog(ops: &[Op]) -> (ContentAddress, Arc<Program>) {
    let p = Program(asm::to_bytes(ops.iter().copied()).collect());
    (essential_hash::content_addr(&p), Arc::new(p))
}
fn check(pred: Predicate, progs: Vec<(ContentAddress, Arc<Program>)>, muts: Vec<Mutation>) -> String {
    let contract = ContentAddress([7; 32]);
    let addr = PredicateAddress { contract, predicate: essential_hash::content_addr(&pred) };
    let set = SolutionSet { solutions: vec![Solution { predicate_to_solve: addr.clone(), predicate_data: vec![], state_mutations: muts }] };
    let preds: HashMap<_, _> = [(addr, Arc::new(pred))].into_iter().collect();
    let progs: HashMap<_, _> = progs.into_iter().collect();
    let r = catch_unwind(AssertUnwindSafe(|| solution::check_and_compute_solution_set_two_pass(&St, set, Arc::new(preds), Arc::new(progs), Arc::new(CheckPredicateConfig::default()))));
    match r { Err(_) => "PANIC".into(), Ok(Ok((g, s))) => format!("Ok(gas={g}, mutations={:?}, check_set(returned)={:?})", s.solutions[0].state_mutations, solution::check_set(&s).map_err(|e| e.to_string())), Ok(Err(e)) => format!("Err({})", e.to_string().replace('\n', " ")) }
}
fn node(edge_start: u16, ca: &ContentAddress) -> Node { Node { edge_start, program_address: ca.clone() } }
fn main() {
    std::panic::set_hook(Box::new(|_| {}));
    // post-reading root: leaves [1] on the stack
    let post = prog(&[PUSH(0), PUSH(1), PUSH(0), PUSH(0), PKRNG, PUSH(1)]);
    let pass = prog(&[PUSH(0), POP]);       // passes parent's stack through
    let leaf = prog(&[PUSH(0), POP, PUSH(0), POP]); // leaf: result is the inherited stack
    // F8: chain numbered 2 -> 1 -> 0 (non-topological) vs 0 -> 1 -> 2
    let bad = Predicate { nodes: vec![node(u16::MAX, &leaf.0), node(0, &pass.0), node(1, &post.0)], edges: vec![0, 1] };
    let good = Predicate { nodes: vec![node(0, &post.0), node(1, &pass.0), node(u16::MAX, &leaf.0)], edges: vec![1, 2] };
    println!("F8 chain 0->1->2 : {}", check(good, vec![post.clone(), pass.clone(), leaf.clone()], vec![]));
    println!("F8 chain 2->1->0 : {}", check(bad, vec![post.clone(), pass.clone(), leaf.clone()], vec![]));
    // K4: edge to a node that does not exist
    let zero = prog(&[PUSH(0)]);
    let phantom = Predicate { nodes: vec![node(0, &zero.0)], edges: vec![7] };
    println!("K4 single node -> edge to node 7, program leaves [0]: {}", check(phantom, vec![zero.clone()], vec![]));
    // K3: declared [9]->[4], computed [9]->[3]
    let out = prog(&[PUSH(5), ALOC, POP, PUSH(1), PUSH(1), PUSH(9), PUSH(1), PUSH(3), PUSH(5), PUSH(0), STOR, PUSH(2)]);
    let p = Predicate { nodes: vec![node(u16::MAX, &out.0)], edges: vec![] };
    println!("K3 declared+computed same key: {}", check(p, vec![out.clone()], vec![Mutation { key: vec![9], value: vec![4] }]));
    // K2: two solutions, same contract, same key, different values
    let a = PredicateAddress { contract: ContentAddress([7; 32]), predicate: ContentAddress([1; 32]) };
    let s1 = Solution { predicate_to_solve: a.clone(), predicate_data: vec![], state_mutations: vec![Mutation { key: vec![9], value: vec![4] }] };
    let s2 = Solution { predicate_to_solve: a.clone(), predicate_data: vec![vec![1]], state_mutations: vec![Mutation { key: vec![9], value: vec![3] }] };
    let ab = SolutionSet { solutions: vec![s1.clone(), s2.clone()] }; let ba = SolutionSet { solutions: vec![s2, s1] };
    println!("K2 check_set(ab)={:?} check_set(ba)={:?} same addr={}", solution::check_set(&ab).is_ok(), solution::check_set(&ba).is_ok(), essential_hash::content_addr(&ab) == essential_hash::content_addr(&ba));
    // F4: post read of i64::MAX keys on a contract with a declared mutation
    let big = prog(&[PUSH(0), PUSH(1), PUSH(i64::MAX), PUSH(0), PKRNG, PUSH(1)]);
    let p = Predicate { nodes: vec![node(u16::MAX, &big.0)], edges: vec![] };
    println!("F4 PKRNG count=i64::MAX: {}", check(p, vec![big.clone()], vec![Mutation { key: vec![9], value: vec![4] }]));
}
