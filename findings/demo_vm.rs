// Triage demo (not part of any check): failing inputs for the VM/decoder defects
// listed in DESIGN.md section 4, run against the pinned tree.
// Build as the main.rs of a scratch crate outside /repo and /verif with path
// dependencies on /repo/crates/{vm,types,asm,hash} and rayon, with /repo/Cargo.lock.
use essential_asm::{self as asm, short::*, Op};
use essential_types::{predicate::{Node, Predicate}, solution::Solution, ContentAddress, PredicateAddress};
use essential_vm::{Access, GasLimit, Vm, StateRead, StateReads};
use std::{panic::catch_unwind, sync::Arc};

#[derive(Clone)]
struct St;
impl StateRead for St { type Error = String; fn key_range(&self, _c: ContentAddress, _k: Vec<i64>, n: usize) -> Result<Vec<Vec<i64>>, String> { Ok(vec![vec![]; n.min(4)]) } }
impl StateReads for St { type Error = String; type Pre = St; type Post = St; fn pre(&self)->&St{self} fn post(&self)->&St{self} }

fn access() -> Access {
    let s = Solution { predicate_to_solve: PredicateAddress { contract: ContentAddress([1;32]), predicate: ContentAddress([2;32]) }, predicate_data: vec![], state_mutations: vec![] };
    Access::new(Arc::new(vec![s]), 0)
}
fn run(ops: &[Op], cost: u64, limit: u64) -> String {
    let mut vm = Vm::default();
    let c = move |_: &Op| cost;
    let r = vm.exec_ops(ops, access(), &St, &c, GasLimit { per_yield: 4096, total: limit });
    format!("{:?}", r.map_err(|e| format!("{e:?}")))
}
fn main() {
    std::panic::set_hook(Box::new(|_| {}));
    // F1
    let r = catch_unwind(|| run(&[PUSH(i64::MIN), PUSH(1), JMPIF], 1, u64::MAX));
    println!("F1 jump_if i64::MIN: {:?}", r.map_err(|_| "PANIC"));
    // F2a: 50 children, 161 ops each, limit 200
    let mut ops = vec![PUSH(50), COM];
    for _ in 0..80 { ops.push(PUSH(1)); ops.push(POP); }
    ops.push(COME);
    println!("F2a limit=200: {}", run(&ops, 1, 200));
    // F2b overflow of the child sum
    let ops2 = vec![PUSH(4), COM, PUSH(1), POP, COME];
    let r = catch_unwind(|| run(&ops2, 1u64<<62, u64::MAX));
    println!("F2b cost 2^62, 4 children: {:?}", r.map_err(|_| "PANIC"));
    // F3
    let r = catch_unwind(|| essential_types::solution::decode::decode_mutations(&[1,1,5]));
    println!("F3a decode_mutations [1,1,5]: {:?}", r.map_err(|_| "PANIC"));
    let r = catch_unwind(|| essential_types::solution::decode::decode_mutations(&[i64::MAX]));
    println!("F3b decode_mutations [i64::MAX]: {:?}", r.map_err(|_| "PANIC"));
    // F5
    println!("F5 analyze [PKRNG, PKREX] = {:?}", asm::effects::analyze(&[PKRNG, PKREX]));
    // F6
    let p = Predicate { nodes: vec![Node{edge_start: 0, program_address: ContentAddress([0;32])}, Node{edge_start: u16::MAX, program_address: ContentAddress([0;32])}], edges: vec![1] };
    println!("F6 encoded_size={} actual={}", p.encoded_size(), p.encode().unwrap().count());
    // F7: two compute children fail at different ops; which error is returned depends on the schedule
    let ops3 = vec![PUSH(2), COM, PUSH(2), SWAP, JMPIF, /*child 0 fails here*/ POP, /*child 1 lands here*/ POP, POP, COME];
    let mut seen = std::collections::BTreeMap::new();
    for threads in [1usize, 2, 4, 8, 16] {
        let pool = rayon::ThreadPoolBuilder::new().num_threads(threads).build().unwrap();
        for _ in 0..300 { let s = pool.install(|| run(&ops3, 1, u64::MAX)); *seen.entry(s).or_insert(0) += 1; }
    }
    println!("F7 distinct results: {}", seen.len());
    for (k, v) in &seen { println!("   {v}x {}", k); }
}
