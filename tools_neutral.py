#!/usr/bin/env python3
"""Run every check on a scratch copy of /repo with behaviour-preserving edits applied (renamed locals, comments, reordered items): no check may fire."""
import os, re, shutil, subprocess, sys, tempfile
S = tempfile.mkdtemp(prefix="essb-neutral-", dir="/tmp")
try:
    subprocess.check_call(["rsync", "-a", "--exclude", "target", "--exclude", ".git", "/repo/", S + "/repo/"])
    def sub(path, pairs):
        p = os.path.join(S, "repo", path); s = open(p).read()
        for a, b in pairs:
            s2 = re.sub(a, b, s)
            assert s2 != s, (path, a)
            s = s2
        open(p, "w").write(s)
    sub("crates/vm/src/state_read.rs", [(r"\bvalue_addr\b", "val_cursor"), (r"let mut mem_addr = Word::try_from\(mem_addr\)", "let mut pair_cursor = Word::try_from(mem_addr)"),
                                        (r"let mut val_cursor = mem_addr\n", "let mut val_cursor = pair_cursor\n"), (r"memory.store_range\(mem_addr, &\[val_cursor, value_len\]\)", "memory.store_range(pair_cursor, &[val_cursor, value_len])"),
                                        (r"        mem_addr \+= 2;", "        pair_cursor += 2;")])
    sub("crates/vm/src/vm.rs", [(r"\bgas_spent\b", "spent_so_far"), (r"\bnext_spent\b", "candidate_total"), (r"// Track the gas spent\.", "// Running total of gas.")])
    sub("crates/types/src/solution/decode.rs", [(r"\bkey_end\b", "kend"), (r"\bvalue_start\b", "vstart"), (r"let mut i = 1;", "let mut cursor = 1;"), (r"while i < bytes.len\(\)", "while cursor < bytes.len()"),
                                                 (r"bytes.get\(i\.\.\)", "bytes.get(cursor..)"), (r"        i \+= size;", "        cursor += size;")])
    sub("crates/types/src/predicate.rs", [(r"\be_end\b", "edges_end"), (r"\be_start\b", "edges_begin")])
    sub("crates/check/src/solution.rs", [(r"\bmut_keys\b", "seen_keys"), (r"\btotal_gas\b", "gas_sum"), (r"// Create the parent map", "// Build parent map first")])
    sub("crates/vm/src/compute.rs", [(r"\bmemory_pointer\b", "write_ptr"), (r"\bmemory_to_alloc\b", "to_alloc"),
                                     # captured variables and closure parameters renamed
                                     (r"        pc,\n        stack,", "        pc: parent_pc,\n        stack,"), (r"ExecError\(pc, OpError::Compute\(e\.into", "ExecError(parent_pc, OpError::Compute(e.into"),
                                     (r"pc: pc \+ 1", "pc: parent_pc + 1"), (r"compute_effects\(memory, pc, halt, oks\)", "compute_effects(memory, parent_pc, halt, oks)"),
                                     (r"\bcompute_index\b", "child_ix"), (r"        cache,\n        access,", "        cache: shared_cache,\n        access,"), (r"cache: cache\.clone\(\)", "cache: shared_cache.clone()")])
    sub("crates/vm/src/stack.rs", [(r"\bcond_w\b", "c_word"), (r"\|w0, w1\| \{\n                Ok\(", "|lower, upper| {\n                Ok("),
                                   (r"\{\n                        w1\n                    \} else \{\n                        w0\n", "{\n                        upper\n                    } else {\n                        lower\n"),
                                   (r"\brev_ix\b", "depth"), (r"\barr_b_index\b", "top_start")])
    sub("crates/vm/src/memory.rs", [(r"\baddress\b", "at"), (r"\bnew_len\b", "keep"), (r"\bvalues\b", "src_words")])
    sub("crates/vm/src/sync.rs", [(r"\|a, b\| Ok\(\(a < b\)", "|x, y| Ok((x < y)"), (r"\|a, b\| Ok\(\(a != 0 && b != 0\)", "|p, q| Ok((p != 0 && q != 0)"),
                                  (r"let \[w, addr\] = stack\.pop2\(\)\?;\n            memory\.store\(addr, w\)", "let [val, ix] = stack.pop2()?;\n            memory.store(ix, val)")])
    sub("crates/check/src/solution.rs", [(r"\bsolution_index\b", "sol_ix"),
                                         # an extra captured variable and a different capture order in the per-solution closure
                                         (r"        \.map\(\|\(sol_ix, \(solution, mut cache\)\)\| \{\n", "        .map(|(sol_ix, (solution, mut cache))| {\n            let _t = run_mode;\n            let _u = &config;\n            let _m = marker;\n"),
                                         (r"    // Check each solution in parallel\.\n", "    let marker = 0usize;\n    // Check each solution in parallel.\n")])
    sub("crates/asm/src/effects.rs", [(r"\bkrng_byte\b", "k_byte"), (r"let mut effects = Effects::empty\(\);", "let mut found = Effects::empty();"), (r"effects \|= Effects::", "found |= Effects::"),
                                      (r"if effects == Effects::all\(\)", "if found == Effects::all()"), (r"    }\n    effects\n}", "    }\n    found\n}")])
    r = subprocess.run(["cargo", "check", "--workspace", "--offline", "-q"], cwd=S + "/repo", env=dict(os.environ, CARGO_TARGET_DIR="/verif/.cache/target-neutral"), stdout=subprocess.PIPE, stderr=subprocess.STDOUT, text=True)
    if r.returncode != 0:
        print("neutral variant does not compile:\n", r.stdout[-3000:]); sys.exit(3)
    os.makedirs(S + "/ev")
    env = dict(os.environ, ESSB_REPO=S + "/repo", ESSB_EVIDENCE_DIR=S + "/ev")
    bad = 0
    for i in range(1, 21):
        P = "C%02d" % i
        r = subprocess.run(["./verif", "check", P], cwd="/verif", env=env, stdout=subprocess.PIPE, stderr=subprocess.STDOUT, text=True)
        last = r.stdout.strip().splitlines()[-1]
        print(last)
        if r.returncode != 0:
            bad += 1
            for l in r.stdout.splitlines():
                if "violated:" in l or l.strip().startswith("at ") or "Traceback" in l:
                    print("    ", l[:260])
    sys.exit(1 if bad else 0)
finally:
    shutil.rmtree(S, ignore_errors=True)
