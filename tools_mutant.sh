#!/bin/bash
# usage: tools_mutant.sh <patch-or-"-e sed-expr file"> <PROP>...   -- run checks against a scratch copy of /repo with one change applied
set -u
PATCH="$1"; shift
S=$(mktemp -d /tmp/essb-mut-XXXXXX)
rsync -a --exclude target --exclude .git /repo/ "$S/repo/"
cd "$S/repo"
if ! patch -p1 --no-backup-if-mismatch -s < "$PATCH"; then echo "PATCH FAILED"; rm -rf "$S"; exit 3; fi
cd /verif
mkdir -p "$S/ev"
rc=0
for P in "$@"; do
  ESSB_REPO="$S/repo" ESSB_EVIDENCE_DIR="$S/ev" ./verif check "$P" > "$S/out.$P" 2>&1; r=$?
  echo "== $P exit=$r"; grep -E "violated:|^ +at |ERROR|Traceback|Error" "$S/out.$P" | head -${MUT_LINES:-8} | cut -c1-260
  [ $r -ne 0 ] && rc=$r
done
rm -rf "$S"
exit $rc
