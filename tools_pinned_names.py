#!/usr/bin/env python3
"""Regenerate tables/pinned_names.json: for every function of the workspace, the parameter names by
position and (closures) the capture names by field index, as they are at the reviewed commit.

The analysis renders parameters and captures *by position*, printing the name recorded here for that
position. Rule literals and table descriptors are therefore written with the names of the reviewed
commit but are insensitive to a later renaming of a parameter or captured variable, and they do see a
re-ordering of closure parameters (which a by-name rendering would miss)."""
import json, os, sys
sys.path.insert(0, os.path.dirname(os.path.abspath(__file__)))
from analysis import facts as F, mir as M
M._PINNED = {}
prog = M.Program(F.ensure_facts())
out = {}
for path, f in sorted(prog.fns.items()):
    args = []
    for l in range(1, f.arg_count + 1):
        nm = f.names.get(l)
        if nm is None and l - 1 < len(f.arg_names) and f.arg_names[l - 1]:
            nm = f.arg_names[l - 1]
        args.append(nm)
    up = list(getattr(f, "upvar_names", None) or []) if f.kind == "Closure" else []
    if any(args) or up:
        out[path] = {"args": args, "upvars": up}
p = os.path.join(F.VERIF, "tables", "pinned_names.json")
json.dump({"comment": __doc__, "names": out}, open(p, "w"), indent=0, sort_keys=True)
print("pinned names for %d functions -> %s" % (len(out), p))
