"""Match tables: read a `match` compiled to one switchInt as value -> arm facts."""
import os
import re

from . import mir as M

try:
    import yaml
except ImportError:  # pragma: no cover
    yaml = None


def entry_switch(fn):
    """The first switchInt reached from the entry block through straight-line code."""
    bb = 0
    seen = set()
    while bb not in seen:
        seen.add(bb)
        t = fn.term(bb)
        if t["k"] == "switch":
            return bb
        s = fn.succs(bb)
        if len(s) != 1:
            return None
        bb = s[0]
    return None


class Arm:
    def __init__(self, fn, src, idx, value, blocks):
        self.fn = fn
        self.src = src
        self.idx = idx
        self.value = value
        self.blocks = blocks

    def stmts(self):
        for b in self.blocks:
            for st in self.fn.blocks[b]["stmts"]:
                if st["k"] == "assign":
                    yield b, st

    def aggregates(self):
        out = []
        for b, st in self.stmts():
            rv = st["rv"]
            if rv["k"] == "aggr" and rv.get("agg") == "adt":
                out.append((M.strip_generics(rv["adt"]), rv["variant"], rv, st))
        return out

    def calls(self):
        out = []
        for b in self.blocks:
            t = self.fn.blocks[b]["term"]
            if t["k"] == "call":
                out.append((b, t))
        return out

    def consts_assigned(self, local=0):
        out = []
        for b, st in self.stmts():
            pl = M.Place(st["pl"])
            if pl.is_local() and pl.local == local and st["rv"]["k"] == "use":
                v = M.const_int(st["rv"]["a"])
                if v is not None:
                    out.append(v)
        return out

    def named_consts(self):
        out = []
        for b, st in self.stmts():
            for op in M.rvalue_operands(st["rv"]):
                if op.get("k") == "const" and "named" in op:
                    out.append(M.strip_generics(op["named"]))
        for b, t in self.calls():
            for op in t["args"]:
                if op.get("k") == "const" and "named" in op:
                    out.append(M.strip_generics(op["named"]))
        return out

    def target(self):
        t = self.fn.term(self.src)
        return t["arms"][self.idx][1] if self.idx < len(t["arms"]) else t["otherwise"]

    def is_unreachable(self):
        b = self.fn.blocks[self.target()]
        return b["term"]["k"] == "unreachable" and not [s for s in b["stmts"] if s["k"] == "assign"]

    def where(self):
        return self.fn.loc(self.blocks[0]) if self.blocks else self.fn.loc(self.src)


def arms_of(fn, src):
    """[Arm] for switch block `src` (last = otherwise)."""
    cfg = fn.cfg()
    t = fn.term(src)
    out = []
    n = len(t["arms"])
    for i in range(n + 1):
        node = ("e", src, i)
        blocks = cfg.blocks_only_via(node)
        val = int(t["arms"][i][0]) if i < n else None
        out.append(Arm(fn, src, i, val, blocks))
    return out


def enum_variants(prog, adt_path):
    a = prog.adts.get(adt_path)
    if not a:
        return None
    out = []
    for v in a["variants"]:
        d = v["discr"]
        out.append((v["name"], v["vi"], int(d) if d is not None else v["vi"], v["fields"]))
    return out


def discr_to_variant(prog, adt_path, switch_value, by="discr"):
    vs = enum_variants(prog, adt_path) or []
    for name, vi, discr, _ in vs:
        if (discr if by == "discr" else vi) == switch_value or (by == "discr" and discr % 256 == switch_value % 256 and abs(discr) < 256 and abs(switch_value) < 256):
            return name
    return None


# --------------------------------------------------------------------------
# asm.yml (the specification, read independently of the code generator)
# --------------------------------------------------------------------------

def load_spec(repo):
    p = os.path.join(repo, "crates", "asm-spec", "asm.yml")
    with open(p) as fh:
        d = yaml.safe_load(fh)
    ops = []

    def walk(tree, path):
        for k, v in tree.items():
            if isinstance(v, dict) and "opcode" in v:
                ops.append({
                    "path": path + [k], "group": path[-1] if path else None, "name": k, "opcode": int(v["opcode"]),
                    "num_arg_bytes": int(v.get("num_arg_bytes") or 0), "short": v.get("short"),
                    "stack_in": v.get("stack_in") or [], "stack_out": v.get("stack_out"),
                    "panics": v.get("panics") or [],
                })
            elif isinstance(v, dict) and "group" in v:
                walk(v["group"], path + [k])
    walk(d, [])
    return ops
