"""Path conditions: the switch edges that dominate a block, rendered as
normalised atoms over provenance terms."""
import re

from . import mir as M

STD_VARIANTS = {
    "std::option::Option": {0: "None", 1: "Some"},
    "core::option::Option": {0: "None", 1: "Some"},
    "std::result::Result": {0: "Ok", 1: "Err"},
    "core::result::Result": {0: "Ok", 1: "Err"},
    "std::ops::ControlFlow": {0: "Continue", 1: "Break"},
    "core::ops::ControlFlow": {0: "Continue", 1: "Break"},
    "std::cmp::Ordering": {255: "Less", 0: "Equal", 1: "Greater", -1: "Less"},
    "core::cmp::Ordering": {255: "Less", 0: "Equal", 1: "Greater", -1: "Less"},
    "std::borrow::Cow": {0: "Borrowed", 1: "Owned"},
}

ERR_WRAPPERS = re.compile(
    r"^(std|core)::(result::Result|option::Option)::(map_err|ok_or|ok_or_else|or_else\b)$")
OPTION_FILTERS = re.compile(r"^(std|core)::option::Option::(filter)$")


def ty_head(ty):
    ty = M.norm_ty(ty).strip()
    while ty.startswith("&"):
        ty = ty[1:].strip()
        if ty.startswith("mut "):
            ty = ty[4:]
    i = ty.find("<")
    return ty if i < 0 else ty[:i]


def place_ty(fn, pl):
    if isinstance(pl, dict):
        pl = M.Place(pl)
    ty = fn.local_ty(pl.local)
    for p in pl.proj:
        k = p["k"]
        if k == "field":
            ty = p["ty"]
        elif k == "deref":
            t = M.norm_ty(ty).strip()
            if t.startswith("&mut "):
                ty = t[5:]
            elif t.startswith("&"):
                ty = t[1:]
            elif t.startswith(("std::boxed::Box<", "alloc::boxed::Box<")):
                ty = t[t.index("<") + 1:-1]
        elif k == "downcast":
            pass
        else:
            ty = "?"
    return ty


def variant_names(prog, ty):
    head = ty_head(ty)
    if head in STD_VARIANTS:
        return STD_VARIANTS[head]
    adt = prog.adts.get(head)
    if adt:
        out = {}
        for v in adt["variants"]:
            try:
                out[int(v["discr"])] = v["name"]
            except (TypeError, ValueError):
                out[v["vi"]] = v["name"]
        return out
    return None


def strip_err_wrappers(t):
    """ok(map_err(x)) == ok(x): error-mapping adaptors do not change success."""
    while True:
        t = M.peel(t, transparent=False, refs=False)
        if t.kind == "call" and ERR_WRAPPERS.match(t.a) and t.sub:
            t = t.sub[0]
            continue
        if t.kind == "try":
            return t
        if t.kind == "call" and re.search(r"ops::(Try|try_trait::Try)>?::branch$|::Try::branch$", t.a) and t.sub:
            t = t.sub[0]
            continue
        return t


FLIP = {"Lt": "Gt", "Gt": "Lt", "Le": "Ge", "Ge": "Le", "Eq": "Eq", "Ne": "Ne"}
NEG = {"Lt": "Ge", "Ge": "Lt", "Gt": "Le", "Le": "Gt", "Eq": "Ne", "Ne": "Eq"}


class Atom:
    __slots__ = ("kind", "text", "terms", "src")

    def __init__(self, kind, text, terms, src):
        self.kind = kind
        self.text = text
        self.terms = terms
        self.src = src

    def __repr__(self):
        return self.text


def cmp_atom(op, a, b, truth, src):
    if not truth:
        op = NEG[op]
    if op in ("Gt", "Ge"):
        op = FLIP[op]
        a, b = b, a
    if op in ("Eq", "Ne"):
        ra, rb = M.render(a), M.render(b)
        if rb < ra:
            a, b = b, a
    return Atom("cmp", "%s(%s, %s)" % (op, M.render(a), M.render(b)), (op, a, b), src)


def atom_of_edge(prog, fn, pv, src_bb, value, arm_index):
    """Atom for crossing switch edge (src_bb -> arm) ; value None = otherwise."""
    t = fn.term(src_bb)
    d = pv.of_operand(t["discr"])
    dty = t["dty"]
    arm_vals = [int(v) for v, _ in t["arms"]]
    if d.kind == "discr":
        inner = d.sub[0]
        # type of the matched place
        ty = None
        for bb in range(len(fn.blocks)):
            pass
        # find the discriminant statement to recover the place type
        dl = M.op_place(t["discr"])
        ty = None
        if dl is not None and dl.is_local():
            for (bb, si, kind, payload) in pv.defs.get(dl.local, []):
                if kind == "rv" and payload["k"] == "discr":
                    ty = place_ty(fn, payload["pl"])
        names = variant_names(prog, ty) if ty else None
        inner_s = strip_err_wrappers(inner)
        is_try = inner.kind == "call" and "::branch" in inner.a and "Try" in inner.a
        if value is not None:
            vname = names.get(int(value), "#%s" % value) if names else "#%s" % value
            if is_try:
                vname = {"Continue": "ok", "Break": "err"}.get(vname, vname)
                return Atom("variant", "%s(%s)" % (vname, M.render(inner_s)), (vname, inner_s), src_bb)
            return Atom("variant", "is:%s(%s)" % (vname, M.render(inner_s)), (vname, inner_s), src_bb)
        # otherwise edge
        if names:
            rest = sorted(set(n for v, n in names.items() if v not in arm_vals and (v % 256) not in arm_vals))
            if len(rest) == 1:
                vname = rest[0]
                if is_try:
                    vname = {"Continue": "ok", "Break": "err"}.get(vname, vname)
                    return Atom("variant", "%s(%s)" % (vname, M.render(inner_s)), (vname, inner_s), src_bb)
                return Atom("variant", "is:%s(%s)" % (vname, M.render(inner_s)), (vname, inner_s), src_bb)
            excl = sorted(names.get(v, "#%d" % v) for v in arm_vals)
            return Atom("variant", "not:%s(%s)" % ("|".join(excl), M.render(inner_s)), ("!" + "|".join(excl), inner_s), src_bb)
        return Atom("variant", "not:#%s(%s)" % ("|".join(map(str, arm_vals)), M.render(inner_s)), ("!", inner_s), src_bb)
    if dty == "bool":
        truth = (value is None) if arm_vals == [0] else (value is not None and int(value) != 0)
        if arm_vals != [0] and value is None:
            truth = False if arm_vals == [1] else True
        x = d
        while x.kind == "unop" and x.a == "Not":
            x = x.sub[0]
            truth = not truth
        if x.kind == "binop" and x.a in NEG:
            return cmp_atom(x.a, x.sub[0], x.sub[1], truth, src_bb)
        return Atom("bool", "%s:%s" % ("true" if truth else "false", M.render(x)), (truth, x), src_bb)
    # integer switch
    if value is not None:
        return Atom("int", "eq:%s=%s" % (M.render(d), value), ("eq", d, int(value)), src_bb)
    return Atom("int", "ne:%s∉{%s}" % (M.render(d), ",".join(map(str, arm_vals))), ("ne", d, tuple(arm_vals)), src_bb)


def conditions(prog, fn, bb):
    """Atoms that hold whenever block bb executes (dominating switch edges)."""
    pv = prog.prov(fn)
    cfg = fn.cfg()
    out = []
    for (src, v, idx) in cfg.dominating_edges(bb):
        try:
            out.append(atom_of_edge(prog, fn, pv, src, v, idx))
        except Exception as e:  # never let rendering kill a check
            out.append(Atom("unknown", "?edge(bb%d)" % src, (), src))
    out.reverse()
    return out


def edge_conditions(prog, fn, src_bb, arm_index):
    """Atoms holding when the given switch edge is crossed (its own atom included)."""
    pv = prog.prov(fn)
    t = fn.term(src_bb)
    arms = t["arms"]
    v = arms[arm_index][0] if arm_index < len(arms) else None
    return conditions(prog, fn, src_bb) + [atom_of_edge(prog, fn, pv, src_bb, v, arm_index)]
