"""Addressed positions of the data-movement operations (C08 R6).

For the stack and memory operations that move words rather than compute them, asm.yml fixes
*which* positions are read and written ("`0` is the index of the element at the top of the
stack", "relative to the bottom", "starting at the index", "Returns the index to the start").
Those positions are affine in the stack/memory length and the popped operands, so they are decided
here as linear forms over provenance terms: `len - d - 1` is the same form whether written
`len.checked_sub(d).and_then(|i| i.checked_sub(1))`, `len - 1 - d` or `len - (d + 1)`.
Parameters are identified by position and closure captures by the operand the parent passes, so
the rule does not depend on local names."""
import re

from . import cond as C
from . import linear as L
from . import mir as M

ELEM = r"slice::<impl \[T\]>::(get|get_mut|get_unchecked|get_unchecked_mut)$|ops::Index(Mut)?<I>>::index(_mut)?$"


def positional(t, env=None):
    if t.kind == "param" and t.a != "<env>":
        return M.T("param", "$%s" % t.meta, meta=t.meta)
    if env is not None and t.kind == "field" and t.sub and isinstance(t.meta, dict) and "i" in t.meta:
        b = t.sub[0]
        while b.kind in ("deref", "ref") and b.sub:
            b = b.sub[0]
        if b.kind == "param" and b.a == "<env>" and t.meta["i"] < len(env):
            return env[t.meta["i"]]
    return M.T(t.kind, t.a, tuple(positional(s, env) for s in t.sub), t.meta)


def norm(s):
    s = re.sub(r"essential_vm::(stack::Stack|memory::Memory|stack)::", "", s)
    s = re.sub(r"std::slice::<impl \[T\]>::", "slice::", s)
    return s.replace("$1.0", "$1").replace("^1.0", "^1")


class View:
    """Calls of one function with positional, normalised, linear-form arguments."""

    def __init__(self, prog, f, env=None):
        self.prog, self.f, self.env = prog, f, env
        self.pv = prog.prov(f)
        self.cfg = f.cfg()

    def sym(self, x):
        return norm(M.render(positional(x, self.env)))

    def form(self, t):
        t = M.peel(positional(t, self.env))
        if t.kind == "aggr" and re.search(r"ops::Range(Inclusive|From|To)?::Range", str(t.a)):
            return "%s[%s]" % (str(t.a).split("::")[-1], ", ".join(self.form(s) for s in t.sub))
        return L.show(L.lin(self.prog, t, lambda x: norm(M.render(x))))

    def arg(self, t, i):
        return self.form(self.pv.of_operand(t["args"][i])) if i < len(t["args"]) else "?"

    def term(self, t, i):
        return positional(self.pv.of_operand(t["args"][i]), self.env)

    def calls(self, rx):
        return [(bb, t) for bb, t in self.f.calls() if re.search(rx, M.callee_of(t))]

    def one(self, rx):
        c = self.calls(rx)
        return c[0] if len(c) == 1 else (None, None)

    def dominates(self, a, b):
        return a is not None and b is not None and a != b and self.cfg.dominates(a, b)

    def deref_stores(self):
        """(bb, rendered base, rendered value) for every `*p = v` statement."""
        out = []
        for bb, b in enumerate(self.f.blocks):
            for st in b["stmts"]:
                if st["k"] != "assign":
                    continue
                pl = M.Place(st["pl"])
                if pl.is_local() or not pl.proj or pl.proj[0]["k"] != "deref" or len(pl.proj) != 1:
                    continue
                base = self.pv.of_local(pl.local)
                rv = st["rv"]
                val = self.pv.of_rvalue(rv)
                out.append((bb, positional(base, self.env), self.form(val)))
        return out

    def stores(self):
        """(bb, rendered target place, form of the value) for every assignment to a projected place."""
        out = []
        for bb, b in enumerate(self.f.blocks):
            if b.get("cleanup"):
                continue
            for st in b["stmts"]:
                if st["k"] != "assign":
                    continue
                pl = M.Place(st["pl"])
                if pl.is_local():
                    continue
                out.append((bb, norm(M.render(positional(self.pv.of_place(pl), self.env))), self.form(self.pv.of_rvalue(st["rv"]))))
        return out

    def guards(self, bb):
        """Comparison atoms dominating bb as (op, linear form of lhs, linear form of rhs)."""
        out = []
        for a in C.conditions(self.prog, self.f, bb):
            if a.kind == "cmp":
                op, l, r = a.terms
                out.append((op, self.form(l), self.form(r)))
        return out

    def rooted_at(self, t, rx):
        """The call matching rx that the value `t` is read out of (through ?, copied, ok_or, deref)."""
        t = M.peel(t)
        for _ in range(12):
            if t.kind == "call" and re.search(rx, t.a):
                return t
            if t.kind in ("try", "deref", "ref", "field", "variant") and t.sub:
                t = M.peel(t.sub[0])
            elif t.kind == "call" and re.search(r"Option::(copied|cloned|ok_or|ok_or_else)$|Result::(map_err|ok)$|Try>::branch$", t.a) and t.sub:
                t = M.peel(t.sub[0])
            else:
                return None
        return None


def _caret(t):
    if t.kind == "param" and isinstance(t.a, str) and t.a.startswith("$"):
        return M.T("param", "^" + t.a[1:], meta=t.meta)
    return M.T(t.kind, t.a, tuple(_caret(x) for x in t.sub), t.meta)


def closure_env(prog, parent, clo, transparent=True):
    """Operands the parent passes as captures of `clo`, positional in the parent.
    With transparent=False, clones / conversions on the way are kept visible."""
    pv = prog.prov(parent)
    for bb, b in enumerate(parent.blocks):
        for st in b["stmts"]:
            if st["k"] == "assign" and st["rv"].get("k") == "aggr":
                t = pv.of_rvalue(st["rv"])
                if t.kind == "aggr" and str(t.a) == "closure:" + clo.path:
                    # the parent's parameters are written ^N so that they cannot be confused with the closure's own $N
                    return [_caret(positional(M.peel(s, transparent=transparent))) for s in t.sub]
    return None


def check(ctx, rid):
    prog = ctx.prog
    n = [0]

    def ob(key, ok, f, detail, loc=None):
        n[0] += 1
        return ctx.ob(rid, key, bool(ok), loc or f.loc(0), detail, f)

    def view(path, env=None):
        f = prog.fn(path)
        if not ctx.anchor(rid, "fn " + path.split("essential_vm::")[-1], f):
            return None
        ctx.saw(f)
        return View(prog, f, env)

    S = "essential_vm::stack::Stack::"
    LEN = "Vec::len($1)"
    POPS = r"stack::Stack::(pop|pop2|pop_len)$"
    LENS = r"Vec::len$|slice::<impl \[T\]>::len$"

    def len_after_pops(v, key):
        pops = [bb for bb, _ in v.calls(POPS)]
        lens = [bb for bb, t in v.calls(LENS) if v.arg(t, 0) == "$1"]
        ob(key + ":length-read-after-the-operands-are-popped", pops and lens and all(v.dominates(p, l) for p in pops for l in lens), v.f,
           "pop calls in bb%s dominate the length reads in bb%s: the depth index is relative to the stack after the operand words are removed" % (pops, lens))

    # ---- DupFrom -----------------------------------------------------------
    v = view(S + "dup_from")
    if v:
        bb, t = v.one(ELEM)
        got = v.arg(t, 1) if t else "?"
        ob("DupFrom:position", got == "%s + -1*pop($1) + -1" % LEN, v.f, "reads element %s; spec: depth index, `0` is the top: len - 1 - index" % got)
        pb, pt = v.one(r"Stack::push$")
        src = v.rooted_at(v.term(pt, 1), ELEM) if pt else None
        ob("DupFrom:pushes-the-word-read", src is not None and t is not None and v.dominates(bb, pb), v.f, "push argument is read out of %s" % (norm(M.render(src))[:120] if src else None))
        len_after_pops(v, "DupFrom")
    # ---- SwapIndex ---------------------------------------------------------
    v = view(S + "swap_index")
    if v:
        bb, t = v.one(r"slice::<impl \[T\]>::swap$")
        got = sorted([v.arg(t, 1), v.arg(t, 2)]) if t else []
        ob("SwapIndex:positions", got == sorted(["%s + -1*pop($1) + -1" % LEN, "%s + -1" % LEN]), v.f, "swaps positions %s; spec: top word (len - 1) with depth index (len - 1 - index)" % got)
        len_after_pops(v, "SwapIndex")
    # ---- Load / Store ------------------------------------------------------
    v = view(S + "load")
    if v:
        bb, t = v.one(ELEM)
        got = v.arg(t, 1) if t else "?"
        ob("Load:position", got == "pop($1)", v.f, "reads element %s; spec: index relative to the bottom, `0` is the bottom" % got)
        pb, pt = v.one(r"Stack::push$")
        ob("Load:pushes-the-word-read", pt is not None and v.rooted_at(v.term(pt, 1), ELEM) is not None and v.dominates(bb, pb), v.f, "push argument is read out of the element access")
    v = view(S + "store")
    if v:
        bb, t = v.one(ELEM)
        got = v.arg(t, 1) if t else "?"
        ob("Store:position", got == "pop2($1)?[1]", v.f, "writes element %s; spec stack_in [value, index]: the index is the top word" % got)
        st = [(b_, base, val) for b_, base, val in v.deref_stores() if v.rooted_at(base, ELEM) is not None]
        ob("Store:value", len(st) == 1 and st[0][2] == "pop2($1)?[0]" and len(v.deref_stores()) == 1, v.f, "stores %s through the element reference; spec: the value is the word below the index" % [s[2] for s in st])
    # ---- Reserve -----------------------------------------------------------
    v = view(S + "reserve_zeroed")
    if v:
        bb, t = v.one(r"Vec::resize$")
        got = [v.arg(t, 1), v.arg(t, 2)] if t else []
        ob("Reserve:new-length-and-fill", got == ["%s + pop($1)" % LEN, "0"], v.f, "resize(%s); spec: `len` zeroed words appended" % got)
        g = v.guards(bb) if bb is not None else []
        ob("Reserve:fails-when-the-new-length-exceeds-the-limit", ("Le", "%s + pop($1)" % LEN, "4096") in g, v.f, "resize under %s" % g)
        pb, pt = v.one(r"Stack::push$")
        ob("Reserve:returns-start", pt is not None and v.arg(pt, 1) == LEN, v.f, "pushes %s; spec: the index to the start of the reserved space" % (v.arg(pt, 1) if pt else None))
        lens = [b_ for b_, t_ in v.calls(LENS) if v.arg(t_, 0) == "$1"]
        ob("Reserve:start-read-before-growing", len(lens) == 1 and v.dominates(lens[0], bb) and v.dominates(bb, pb), v.f, "length read in bb%s, resize in bb%s, push in bb%s" % (lens, bb, pb))
        len_after_pops(v, "Reserve")
    # ---- SelectRange -------------------------------------------------------
    v = view(S + "select_range")
    if v:
        bb, t = v.one(r"Vec::truncate$")
        got = v.arg(t, 1) if t else "?"
        ob("SelectRange:keeps-len-minus-n", got == "%s + -1*pop_len($1)" % LEN, v.f, "truncate(%s); spec: one of two ranges of `len` words remains" % got)
        cb, ct = v.one(r"slice::<impl \[T\]>::copy_within$")
        got = [v.arg(ct, 1), v.arg(ct, 2)] if ct else []
        ob("SelectRange:copies-top-range-over-lower-range", got == ["Range[%s + -1*pop_len($1), %s]" % (LEN, LEN), "%s + -2*pop_len($1)" % LEN], v.f,
           "copy_within(%s); spec: [arr_a.., arr_b..] with arr_b on top, arr_b kept when cond" % got)
        atoms = [str(a) for a in C.conditions(prog, v.f, cb)] if cb is not None else []
        pos = [a for a in atoms if re.match(r"^true:.*bool_from_word\(", a)]
        neg = [a for a in atoms if re.match(r"^false:.*bool_from_word\(", a)]
        ob("SelectRange:copy-iff-cond", len(pos) == 1 and not neg and re.search(r"bool_from_word\(essential_vm::stack::Stack::pop\(\w+\)\?\)", pos[0]) and cb is not None and bb is not None and v.cfg.reaches(cb, bb) and not v.cfg.reaches(bb, cb), v.f,
           "copy_within is on the true edge of the condition (%s) and precedes the truncation; spec: if cond is true the top range is kept" % [a[:80] for a in pos + neg])
        p1 = [b_ for b_, _ in v.calls(r"stack::Stack::pop$")]
        p2 = [b_ for b_, _ in v.calls(r"stack::Stack::pop_len$")]
        ob("SelectRange:cond-popped-before-len", len(p1) == 1 and len(p2) == 1 and v.dominates(p1[0], p2[0]), v.f, "spec stack_in [.., len, cond]: cond is the top word")
        len_after_pops(v, "SelectRange")
    # ---- slice helpers (Drop, EqRange, EqSet, StoreRange, hashing ops) -------
    v = view("essential_vm::stack::slice_split_len")
    if v:
        bb, t = v.one(r"slice::<impl \[T\]>::split_at$")
        got = v.arg(t, 1) if t else "?"
        ob("slice_split_len:split-point", got == "-1*$2 + slice::len($1)" and v.arg(t, 0) == "$1", v.f, "split_at(%s): the top `len` words are the second half" % got)
        oks = [a for a in _alts(v.pv.of_local(0)) if a.kind == "aggr" and str(a.a).endswith("Result::Ok")]
        ob("slice_split_len:returns-(rest,top)", len(oks) == 1 and v.rooted_at(oks[0].sub[0], r"split_at$") is not None and M.peel(oks[0].sub[0]).kind == "call", v.f,
           "Ok(split_at(..)) unswapped")
    v = view("essential_vm::stack::slice_split_len_words")
    if v:
        bb, t = v.one(r"stack::slice_split_len$")
        got = [v.arg(t, 0), v.arg(t, 1)] if t else []
        ob("slice_split_len_words:length-is-the-top-word", got == ["slice::split_last($1)?.1", "slice::split_last($1)?.0"], v.f,
           "slice_split_len(%s): split_last gives (top word, rest); the count is the top word and the split is over the rest" % got)
    for name, splitter, fargs, trunc in [
        ("pop_len_words", "slice_split_len_words($1)", ["slice_split_len_words($1)?.1"], "slice::len(slice_split_len_words($1)?.0)"),
        ("pop_words", "slice_split_len($1, $2)", ["slice_split_len($1, $2)?.1"], "slice::len(slice_split_len($1, $2)?.0)"),
        ("pop_len_words2", None, ["slice_split_len_words(slice_split_len_words($1)?.0)?.1", "slice_split_len_words($1)?.1"],
         "slice::len(slice_split_len_words(slice_split_len_words($1)?.0)?.0)"),
    ]:
        v = view(S + name)
        if not v:
            continue
        cb, ct = v.one(r"ops::FnOnce::call_once$|ops::FnMut::call_mut$|ops::Fn::call$")
        tup = M.peel(v.term(ct, 1)) if ct else None
        got = [v.form(s) for s in tup.sub] if tup is not None and tup.kind == "aggr" else []
        ob("%s:f-receives" % name, got == fargs, v.f, "f(%s); the words handed to f are the top range(s), lower range first" % got)
        tb, tt = v.one(r"Vec::truncate$")
        got = v.arg(tt, 1) if tt else "?"
        ob("%s:truncates-to-rest" % name, got == trunc and v.dominates(cb, tb), v.f, "truncate(%s) after f returned Ok" % got)

    # ---- EqRange / EqSet ---------------------------------------------------
    EQ = r"cmp::PartialEq(<.*>)?( for .*)?>::eq$|cmp::PartialEq::eq$"
    v = view("essential_vm::pred::eq_range")
    if v:
        pushes = v.calls(r"stack::Stack::push$")
        plw_b, plw = v.one(r"stack::Stack::pop_len_words$")
        one = [(b_, t_) for b_, t_ in pushes if v.arg(t_, 1) == "1"]
        atoms = [str(a) for a in C.conditions(prog, v.f, one[0][0])] if len(one) == 1 else []
        ob("EqRange:length-0-is-equal", len(one) == 1 and any(re.match(r"^Eq\(0, essential_vm::stack::Stack::pop\(\w+\)\?\)$", a) for a in atoms) and not v.cfg.reaches(one[0][0], plw_b or 0), v.f,
           "push(1) under %s, without comparing" % [a for a in atoms if a.startswith("Eq(")])
        dbl = [(b_, t_) for b_, t_ in pushes if v.arg(t_, 1) == "2*pop($1)"]
        ob("EqRange:takes-2*len-words", len(dbl) == 1 and plw is not None and v.dominates(dbl[0][0], plw_b) and len(v.calls(POPS)) == 1, v.f,
           "pushes %s as the length word of pop_len_words: exactly the two ranges of `len` words are consumed" % [v.arg(t_, 1) for _, t_ in pushes])
        res = [(b_, t_) for b_, t_ in pushes if v.rooted_at(_through_into(v.term(t_, 1)), r"stack::Stack::pop_len_words$") is not None]
        ob("EqRange:pushes-the-comparison", len(res) == 1 and len(pushes) == 3 and v.dominates(plw_b, res[0][0]), v.f, "the third push is From<bool> of the closure's result")
        for clo in prog.closures_of(v.f):
            cv = View(prog, clo, closure_env(prog, v.f, clo))
            sb, stt = cv.one(r"slice::<impl \[T\]>::split_at$")
            if stt is None:
                continue
            ctx.saw(clo)
            ob("EqRange:splits-the-2*len-words-at-len", cv.arg(stt, 0) == "$2" and cv.arg(stt, 1) == "pop(^1)", clo, "split_at(%s, %s)" % (cv.arg(stt, 0), cv.arg(stt, 1)))
            oks = [a_ for a_ in _alts(cv.pv.of_local(0)) if a_.kind == "aggr" and str(a_.a).endswith("Result::Ok")]
            r_ = M.peel(oks[0].sub[0]) if len(oks) == 1 else None
            sides = sorted(norm(M.render(positional(x, cv.env))) for x in r_.sub) if r_ is not None and r_.kind == "call" and re.search(EQ, r_.a) else []
            ob("EqRange:compares-the-two-halves", len(sides) == 2 and sides[0].endswith(").0") and sides[1].endswith(").1") and sides[0][:-2] == sides[1][:-2] and "split_at(" in sides[0], clo,
               "returns Ok(%s == %s)" % tuple(sides) if len(sides) == 2 else "returns %s" % (norm(M.render(r_))[:120] if r_ is not None else None))
    v = view("essential_vm::pred::eq_set")
    if v:
        pb, pt = v.one(r"stack::Stack::push$")
        ob("EqSet:pushes-the-comparison", pt is not None and v.rooted_at(_through_into(v.term(pt, 1)), r"stack::Stack::pop_len_words2$") is not None, v.f, "push(From<bool>(pop_len_words2(..)?))")
        for clo in prog.closures_of(v.f):
            cv = View(prog, clo, closure_env(prog, v.f, clo))
            ctx.saw(clo)
            oks = [a_ for a_ in _alts(cv.pv.of_local(0)) if a_.kind == "aggr" and str(a_.a).endswith("Result::Ok")]
            r_ = M.peel(oks[0].sub[0]) if len(oks) == 1 else None
            sides = sorted(norm(M.render(positional(x, cv.env))) for x in r_.sub) if r_ is not None and r_.kind == "call" and re.search(r"HashSet<T, S, A> as std::cmp::PartialEq>::eq$|BTreeSet<T, A> as std::cmp::PartialEq>::eq$", r_.a) else []
            want = ["std::iter::Iterator::collect(essential_vm::sets::decode_set($2))?", "std::iter::Iterator::collect(essential_vm::sets::decode_set($3))?"]
            ob("EqSet:compares-the-two-decoded-sets", sides == want, clo, "returns Ok(set equality of %s)" % sides)
    v0 = view("essential_vm::sets::decode_set")
    if v0:
        clos = [c for c in prog.closures_of(v0.f) if c.parent == v0.f.path or c.path.count("{closure#") == 1]
        c0 = [c for c in prog.closures_of(v0.f) if c.path == v0.f.path + "::{closure#0}"]
        if ctx.anchor(rid, "decode_set iterator closure", c0):
            cv = View(prog, c0[0], None)
            ctx.saw(c0[0])
            sb, stt = cv.one(r"slice::<impl \[T\]>::split_at$")
            lb, lt = cv.one(r"slice::<impl \[T\]>::split_last$")
            ab, at = cv.one(r"Result::and_then$")
            ob("decode_set:item-length-is-the-top-word", at is not None and lt is not None and cv.arg(at, 0) == "slice::split_last(<env>.ws)?.0", c0[0], "length word %s" % (cv.arg(at, 0) if at else None))
            ob("decode_set:item-is-the-tail-of-the-rest", stt is not None and cv.arg(stt, 0) == "slice::split_last(<env>.ws)?.1" and cv.rooted_at(cv.term(stt, 1), r"Result::and_then$") is not None, c0[0],
               "split_at(%s, <index from and_then>)" % (cv.arg(stt, 0) if stt else None))
            inner = [c for c in prog.closures_of(c0[0]) if c.path == c0[0].path + "::{closure#1}"]
            if ctx.anchor(rid, "decode_set index closure", inner):
                iv = View(prog, inner[0], closure_env(prog, c0[0], inner[0]))
                ctx.saw(inner[0])
                oks = _alts(iv.pv.of_local(0))
                got = iv.form(oks[0]) if len(oks) == 1 else "?"
                ob("decode_set:index=len(rest)-item_len", got == "-1*$2 + slice::len(slice::split_last(<env>.ws)?.1)", inner[0], "index %s" % got)
            st = cv.stores()
            ob("decode_set:continues-below-the-item", len(st) == 1 and st[0][1] == "<env>.ws" and re.match(r"^slice::split_at\(.*\)\.0$", st[0][2]) is not None, c0[0], "stores %s" % [(p_, v_[:60]) for _, p_, v_ in st])
            rets = [a_ for a_ in _alts(cv.pv.of_local(0)) if a_.kind == "aggr" and str(a_.a).endswith("Option::Some")]
            okret = [M.peel(a_.sub[0]) for a_ in rets if M.peel(a_.sub[0]).kind == "aggr" and str(M.peel(a_.sub[0]).a).endswith("Result::Ok")]
            ob("decode_set:yields-the-item", len(okret) == 1 and re.match(r"^slice::split_at\(.*\)\.1$", cv.form(okret[0].sub[0])) is not None, c0[0], "yields Ok(%s)" % (cv.form(okret[0].sub[0])[:80] if okret else None))

    # ---- Memory ------------------------------------------------------------
    Mm = "essential_vm::memory::Memory::"
    v = view(Mm + "alloc")
    if v:
        bb, t = v.one(r"Vec::resize$")
        got = [v.arg(t, 1), v.arg(t, 2)] if t else []
        ob("Alloc:new-length-and-fill", got == ["$2 + %s" % LEN, "0"], v.f, "resize(%s); spec: a new zeroed block of `size` words at the end" % got)
        g = v.guards(bb) if bb is not None else []
        ob("Alloc:fails-when-the-new-length-exceeds-the-limit", ("Le", "$2 + %s" % LEN, "10240") in g, v.f, "resize under %s; the bound is on the resulting length (len + size <= SIZE_LIMIT), not on the request" % g)
    v = view(Mm + "store")
    if v:
        bb, t = v.one(ELEM)
        got = v.arg(t, 1) if t else "?"
        st = [(b_, base, val) for b_, base, val in v.deref_stores() if v.rooted_at(base, ELEM) is not None]
        ob("MemStore:position-and-value", got == "$2" and len(st) == 1 and st[0][2] == "$3" and len(v.deref_stores()) == 1, v.f, "element %s := %s (address = parameter 2, value = parameter 3)" % (got, [s[2] for s in st]))
    v = view(Mm + "load")
    if v:
        bb, t = v.one(ELEM)
        got = v.arg(t, 1) if t else "?"
        oks = [a for a in _alts(v.pv.of_local(0)) if a.kind == "aggr" and str(a.a).endswith("Result::Ok")]
        ob("MemLoad:position", got == "$2" and len(oks) == 1 and v.rooted_at(positional(oks[0].sub[0]), ELEM) is not None, v.f, "returns element %s" % got)
    v = view(Mm + "store_range")
    if v:
        bb, t = v.one(r"ops::IndexMut<I>>::index_mut$")
        got = v.arg(t, 1) if t else "?"
        cb, ct = v.one(r"slice::<impl \[T\]>::(copy_from_slice|clone_from_slice)$")
        ob("StoreRange:range", got == "Range[$2, $2 + slice::len($3)]", v.f, "writes %s; spec: a range of words starting at the index" % got)
        g = v.guards(bb) if bb is not None else []
        ob("StoreRange:fails-when-the-range-ends-past-the-length", ("Le", "$2 + slice::len($3)", LEN) in g, v.f, "range write under %s" % g)
        ob("StoreRange:source", ct is not None and v.arg(ct, 1) == "$3" and v.rooted_at(v.term(ct, 0), r"index_mut$") is not None, v.f, "copy_from_slice(range, parameter 3)")
    v = view(Mm + "load_range")
    if v:
        bb, t = v.one(r"ops::Index<I>>::index$")
        got = v.arg(t, 1) if t else "?"
        ob("LoadRange:range", got == "Range[$2, $2 + $3]", v.f, "reads %s; spec: a range of `len` words starting at the index" % got)
        g = v.guards(bb) if bb is not None else []
        ob("LoadRange:fails-when-the-range-ends-past-the-length", ("Le", "$2 + $3", LEN) in g, v.f, "range read under %s" % g)
        oks = [a for a in _alts(v.pv.of_local(0)) if a.kind == "aggr" and str(a.a).endswith("Result::Ok")]
        ob("LoadRange:returns-the-range", len(oks) == 1 and v.rooted_at(_through_to_vec(positional(oks[0].sub[0])), r"ops::Index<I>>::index$") is not None, v.f, "Ok(range.to_vec())")
    v = view(Mm + "free")
    if v:
        bb, t = v.one(r"Vec::truncate$")
        got = v.arg(t, 1) if t else "?"
        ob("Free:new-length", got == "$2", v.f, "truncate(%s); spec: truncate memory to the specified new length" % got)
        g = v.guards(bb) if bb is not None else []
        ob("Free:fails-when-the-new-length-exceeds-the-length", ("Le", "$2", LEN) in g, v.f, "truncate under %s" % g)

    # ---- success only under the bound (no fast path around the checks) ------------
    def ok_rows_guarded(path, key, guard, n_err):
        f_ = prog.fn(path)
        if f_ is None:
            return
        v_ = View(prog, f_)
        rows = M.return_table(prog, f_)
        oks = [(bb_, val) for bb_, val, _ in rows if val.startswith("Result::Ok{")]
        errs = [(bb_, val) for bb_, val, _ in rows if not val.startswith("Result::Ok{")]
        good = len(oks) == 1 and (guard is None or guard in v_.guards(oks[0][0])) and len(errs) == n_err
        ob(key, good, f_, "%d Ok return(s) under %s, %d failing return(s); expected one Ok under %s and %d failing returns" % (len(oks), [v_.guards(b_) for b_, _ in oks], len(errs), guard, n_err))
    ok_rows_guarded(Mm + "store_range", "StoreRange:succeeds-only-within-bounds", ("Le", "$2 + slice::len($3)", LEN), 3)
    ok_rows_guarded(Mm + "load_range", "LoadRange:succeeds-only-within-bounds", ("Le", "$2 + $3", LEN), 4)
    ok_rows_guarded(Mm + "free", "Free:succeeds-only-within-bounds", ("Le", "$2", LEN), 2)
    ok_rows_guarded(Mm + "alloc", "Alloc:succeeds-only-within-the-limit", ("Le", "$2 + %s" % LEN, "10240"), 3)
    ok_rows_guarded(Mm + "store", "MemStore:succeeds-only-for-an-existing-word", None, 2)
    ok_rows_guarded(Mm + "load", "MemLoad:succeeds-only-for-an-existing-word", None, 2)
    for ty, lim in (("essential_vm::stack::Stack", "4096"), ("essential_vm::memory::Memory", "10240")):
        ok_rows_guarded("<%s as std::convert::TryFrom<std::vec::Vec<i64>>>::try_from" % ty, "%s:from-words-accepts-exactly-len<=limit" % ty.split("::")[-1], ("Le", LEN, lim), 1)
        f_ = prog.fn("<%s as std::convert::TryFrom<std::vec::Vec<i64>>>::try_from" % ty)
        if f_ is not None:
            v_ = View(prog, f_)
            errs = [bb_ for bb_, val, _ in M.return_table(prog, f_) if val.startswith("Result::Err{")]
            ob("%s:from-words-rejects-exactly-len>limit" % ty.split("::")[-1], len(errs) == 1 and ("Lt", lim, LEN) in v_.guards(errs[0]), f_, "Err under %s" % [v_.guards(b_) for b_ in errs])

    parent_memory_rules(ctx, rid)
    # ---- wiring in step_op_memory -----------------------------------------------
    som = prog.fn("essential_vm::sync::step_op_memory")
    if ctx.anchor(rid, "fn step_op_memory", som):
        ctx.saw(som)
        v = View(prog, som)

        def arm_call(rx, want, key, why):
            bb, t = v.one(rx)
            got = [v.arg(t, i) for i in range(len(t["args"]))] if t else []
            got = [norm(g) for g in got]
            ob(key, got == want, som, "%s; %s" % (got, why), som.loc(bb) if bb is not None else None)
            return bb

        a = arm_call(r"memory::Memory::alloc$", ["$3", "pop($2)"], "Alloc:wiring", "alloc(memory, size) with size the popped word")
        lb, lt = v.one(r"memory::Memory::len$")
        pb, pt = v.one(r"stack::Stack::push$")
        ob("Alloc:returns-old-length", lt is not None and pt is not None and v.arg(pt, 1) == "len($3)" and v.dominates(lb, a) and v.dominates(a, pb), som,
           "pushes %s read in bb%s before alloc in bb%s; spec: returns the index to the start of the new block" % (v.arg(pt, 1) if pt else None, lb, a))
        arm_call(r"memory::Memory::store$", ["$3", "pop2($2)?[1]", "pop2($2)?[0]"], "MemStore:wiring", "spec stack_in [value, index]: store(memory, index, value)")
        arm_call(r"memory::Memory::free$", ["$3", "pop($2)"], "Free:wiring", "free(memory, new_length)")
        arm_call(r"memory::Memory::load_range$", ["$3", "pop2($2)?[0]", "pop2($2)?[1]"], "LoadRange:wiring", "spec stack_in [index, len]: load_range(memory, index, len)")
        eb, et = v.one(r"stack::Stack::extend$")
        ob("LoadRange:pushes-the-words", et is not None and v.rooted_at(v.term(et, 1), r"memory::Memory::load_range$") is not None, som, "extend(stack, load_range(..)?)")
        for clo in prog.closures_of(som):
            env = closure_env(prog, som, clo)
            cv = View(prog, clo, env)
            ctx.saw(clo)
            for bb, t in cv.calls(r"memory::Memory::load$"):
                got = [norm(cv.arg(t, i)) for i in range(len(t["args"]))]
                ob("MemLoad:wiring", got == ["^3", "$2"] and env is not None, clo, "%s; load(memory, popped address) inside pop1_push1" % got)
                oks = [a_ for a_ in _alts(cv.pv.of_local(0)) if a_.kind == "aggr" and str(a_.a).endswith("Result::Ok")]
                ob("MemLoad:pushes-the-word", len(oks) == 1 and cv.rooted_at(oks[0].sub[0], r"memory::Memory::load$") is not None, clo, "closure returns Ok(load(..)?)")
            for bb, t in cv.calls(r"memory::Memory::store_range$"):
                got = [norm(cv.arg(t, i)) for i in range(len(t["args"]))]
                ob("StoreRange:wiring", got == ["^3", "pop(^2)", "$2"] and env is not None, clo,
                   "%s; spec stack_in [values, len, index]: the index is popped first, the words come from pop_len_words" % got)
        plw = v.calls(r"stack::Stack::pop_len_words$")
        pops = v.calls(r"stack::Stack::pop$")
        ob("StoreRange:index-popped-before-the-words", len(plw) == 1 and any(v.dominates(pb_, plw[0][0]) for pb_, _ in pops), som,
           "a pop dominates pop_len_words")
    ctx.floor(rid, "addressed-position obligations", n[0], 72)


def _alts(t):
    return list(t.sub) if t.kind == "phi" else [t]


def _through_into(t):
    t = M.peel(t)
    if t.kind == "call" and re.search(r"convert::(Into|From)<.*>>::(into|from)$|::from$|::into$", t.a) and t.sub:
        return t.sub[0]
    return t


def _through_to_vec(t):
    t = M.peel(t)
    if t.kind == "call" and re.search(r"slice::<impl \[T\]>::to_vec$|borrow::ToOwned>::to_owned$|convert::(Into|From)<.*>>::(into|from)$", t.a) and t.sub:
        return t.sub[0]
    return t


def from_words_tables(ctx, rid):
    """Stack / Memory built from a word vector (the checker concatenates parents' results this way): accepted exactly when len <= limit."""
    prog = ctx.prog
    for ty, lim in (("essential_vm::stack::Stack", "4096"), ("essential_vm::memory::Memory", "10240")):
        f_ = prog.fn("<%s as std::convert::TryFrom<std::vec::Vec<i64>>>::try_from" % ty)
        if not ctx.anchor(rid, "TryFrom<Vec<Word>> for %s" % ty.split("::")[-1], f_):
            continue
        ctx.saw(f_)
        v_ = View(prog, f_)
        rows = M.return_table(prog, f_)
        oks = [bb_ for bb_, val, _ in rows if val.startswith("Result::Ok{")]
        errs = [bb_ for bb_, val, _ in rows if val.startswith("Result::Err{")]
        good = len(rows) == 2 and len(oks) == 1 and len(errs) == 1 and ("Le", "Vec::len($1)", lim) in v_.guards(oks[0]) and ("Lt", lim, "Vec::len($1)") in v_.guards(errs[0])
        ctx.ob(rid, "%s-from-words:accepted-iff-len<=%s" % (ty.split("::")[-1], lim), good, f_.loc(0), "Ok under %s; Err under %s" % ([v_.guards(b_) for b_ in oks], [v_.guards(b_) for b_ in errs]), f_)


def parent_memory_rules(ctx, rid):
    """ParentMemory::Load / LoadRange: the same checked Memory::load / load_range as the own-memory ops, on the innermost
    parent memory, with the popped operands in spec order; the words read are what is pushed."""
    prog = ctx.prog
    f = prog.fn("essential_vm::sync::step_op_parent_memory")
    if not ctx.anchor(rid, "fn step_op_parent_memory", f):
        return
    ctx.saw(f)
    v = View(prog, f)
    PM = "(slice::last($3) as Some).0"
    bb, t = v.one(r"memory::Memory::load_range$")
    got = [norm(v.arg(t, i)) for i in range(len(t["args"]))] if t else []
    ctx.ob(rid, "ParentLoadRange:wiring", got == [PM, "pop2($2)?[0]", "pop2($2)?[1]"], f.loc(bb) if bb is not None else f.loc(0),
           "%s; spec stack_in [index, len]: load_range(innermost parent memory, index, len) -- the checked range read that fails for a negative or out-of-range request" % got, f)
    eb, et = v.one(r"stack::Stack::extend$")
    ctx.ob(rid, "ParentLoadRange:pushes-the-words", et is not None and v.rooted_at(v.term(et, 1), r"memory::Memory::load_range$") is not None and len(v.calls(r"stack::Stack::(push|extend)$")) == 1, f.loc(eb) if eb is not None else f.loc(0),
           "extend(stack, load_range(..)?) is the only push", f)
    nb = [bb_ for bb_, val, at in M.return_table(prog, f) if "ParentMemoryError::NoParent" in val]
    ctx.ob(rid, "ParentMemory:no-parent-is-an-error", len(nb) == 1, f.loc(0), "NoParent returned on %d path(s)" % len(nb), f)
    for clo in prog.closures_of(f):
        cv = View(prog, clo, closure_env(prog, f, clo))
        for bb2, t2 in cv.calls(r"memory::Memory::load$"):
            ctx.saw(clo)
            got = [norm(cv.arg(t2, i)) for i in range(len(t2["args"]))]
            ctx.ob(rid, "ParentLoad:wiring", got == [PM.replace("$3", "^3"), "$2"], clo.loc(bb2), "%s; load(innermost parent memory, popped address) inside pop1_push1" % got, clo)
            oks = [a_ for a_ in _alts(cv.pv.of_local(0)) if a_.kind == "aggr" and str(a_.a).endswith("Result::Ok")]
            ctx.ob(rid, "ParentLoad:pushes-the-word", len(oks) == 1 and cv.rooted_at(oks[0].sub[0], r"memory::Memory::load$") is not None, clo.loc(0), "closure returns Ok(load(..)?)", clo)


def alloc_rules(ctx, rid):
    """Memory::alloc succeeds exactly while the resulting length stays within the limit (the join of compute children relies on it)."""
    prog = ctx.prog
    f = prog.fn("essential_vm::memory::Memory::alloc")
    if not ctx.anchor(rid, "fn Memory::alloc", f):
        return
    ctx.saw(f)
    v = View(prog, f)
    rows = M.return_table(prog, f)
    oks = [bb_ for bb_, val, _ in rows if val.startswith("Result::Ok{")]
    errs = [bb_ for bb_, val, _ in rows if val.startswith("Result::Err{")]
    LEN = "Vec::len($1)"
    ok = len(oks) == 1 and ("Le", "$2 + %s" % LEN, "10240") in v.guards(oks[0]) and len(errs) == 1 and ("Lt", "10240", "$2 + %s" % LEN) in v.guards(errs[0]) and len(rows) == 4
    ctx.ob(rid, "alloc:succeeds-iff-len+size<=10240", ok, f.loc(0), "Ok under %s; Err under %s" % ([v.guards(b_) for b_ in oks], [v.guards(b_) for b_ in errs]), f)


def run_program_access(ctx, rid):
    """The checker hands each node's VM the *whole* set and the index of the solution being checked."""
    prog = ctx.prog
    f = prog.fn("essential_check::solution::run_program")
    if not ctx.anchor(rid, "fn run_program", f):
        return
    ctx.saw(f)
    v = View(prog, f)
    bb, t = v.one(r"access::Access::new$")
    got = [norm(M.render(positional(M.peel(v.pv.of_operand(a), transparent=False)))) for a in t["args"]] if t else []
    ctx.ob(rid, "run_program:access=(all-solutions-of-the-set,solution_index)", got == ["std::sync::Arc::new(<std::vec::Vec<T, A> as std::clone::Clone>::clone($2.solutions))", "$3"],
           f.loc(bb) if bb is not None else f.loc(0), "Access::new(%s)" % ", ".join(g[:90] for g in got), f)
    eb, et = v.one(r"vm::Vm::exec_ops$")
    ok = et is not None and v.rooted_at(positional(M.peel(v.pv.of_operand(et["args"][2]), transparent=False)), r"access::Access::new$") is not None
    ctx.ob(rid, "run_program:vm-runs-with-that-access", ok, f.loc(eb) if eb is not None else f.loc(0), "exec_ops(.., access, ..) receives the Access built above", f)


def compute_inputs_wiring(ctx, rid):
    """step_op hands `compute` the executing VM's own live state: its pc, stack, memory, a clone of its parent-memory stack
    (which is also the nesting-depth counter), halt flag, repeat stack, cache, and the step's own access / readers / limits."""
    prog = ctx.prog
    f = prog.fn("essential_vm::sync::step_op")
    if not ctx.anchor(rid, "fn step_op", f):
        return
    ctx.saw(f)
    pv = prog.prov(f)
    aggs = [(bb, st["rv"]) for bb, b in enumerate(f.blocks) for st in b["stmts"]
            if st["k"] == "assign" and st["rv"].get("k") == "aggr" and st["rv"].get("agg") == "adt" and "ComputeInputs" in str(st["rv"].get("adt"))]
    if not ctx.ob(rid, "step_op:one-ComputeInputs", len(aggs) == 1, f.loc(aggs[0][0]) if aggs else f.loc(0), "%d ComputeInputs aggregates" % len(aggs), f):
        return
    bb, rv = aggs[0]
    got = dict(zip(rv["fields"], [norm(M.render(positional(M.peel(pv.of_operand(o), transparent=False)))) for o in rv["ops"]]))
    want = {"pc": "$3.pc", "stack": "$3.stack", "memory": "$3.memory", "parent_memory": "<std::vec::Vec<T, A> as std::clone::Clone>::clone($3.parent_memory)", "halt": "$3.halt",
            "repeat": "$3.repeat", "cache": "<std::sync::Arc<T, A> as std::clone::Clone>::clone($3.cache)", "access": "$1", "state_reads": "$4", "op_access": "$5", "op_gas_cost": "$6", "gas_limit": "$7"}
    for k, w in want.items():
        ctx.ob(rid, "compute-inputs.%s" % k, got.get(k) == w, f.loc(bb), "ComputeInputs.%s = %s; expected %s" % (k, got.get(k), w), f)
