"""Panic-path enumeration: every panic-capable construct in a set of functions,
with automatic discharge rules and a reviewed-site table."""
import json
import os
import re

from . import cond as C
from . import facts as F
from . import mir as M

INT = r"(i8|i16|i32|i64|i128|isize|u8|u16|u32|u64|u128|usize)"

# std callees that can panic (resolved path, generics stripped)
STD_PANICS = [
    (r"^(std|core)::(option::Option|result::Result)::(unwrap|expect|unwrap_err|expect_err|unwrap_unchecked)$", "unwrap"),
    (r"^(std|core)::panicking::", "panic"),
    (r"^(std|core)::rt::(begin_panic|panic_)", "panic"),
    (r"^(std|core)::(option|result)::(unwrap_failed|expect_failed)$", "panic"),
    (r"^(std|core)::process::(exit|abort)$", "abort"),
    (r"^(std|core)::intrinsics::(abort|unreachable|breakpoint)$", "abort"),
    (r"^<.* as (std|core)::ops::(Index|IndexMut)<.*>>::(index|index_mut)$", "index"),
    (r"<impl (std|core)::ops::(Index|IndexMut)<.*> for .*>::(index|index_mut)$", "index"),
    (r"^(std|core)::ops::(Index|IndexMut)::(index|index_mut)$", "index"),
    (r"^(std|core)::slice::<impl \[T\]>::(split_at|split_at_mut|copy_from_slice|clone_from_slice|copy_within|swap|"
     r"chunks|chunks_mut|chunks_exact|chunks_exact_mut|rchunks|rchunks_exact|windows|rotate_left|rotate_right|"
     r"swap_with_slice|select_nth_unstable|as_chunks|array_windows|split_at_unchecked)$", "slice"),
    (r"^(std|alloc)::vec::Vec::(swap_remove|remove|insert|drain|split_off|with_capacity|reserve|reserve_exact|resize|"
     r"resize_with|extend_from_within|with_capacity_in|splice)$", "vec"),
    (r"^(std|alloc)::vec::from_elem$", "vec"),
    (r"^(std|alloc)::collections::VecDeque::(with_capacity|remove|insert|swap|drain|split_off|reserve|resize)$", "vec"),
    (r"^(std|alloc)::string::String::(with_capacity|remove|insert|insert_str|drain|split_off|truncate|reserve)$", "vec"),
    (r"^(std|core)::str::<impl str>::(split_at|split_at_mut)$", "slice"),
    (r"^(std|core)::num::<impl " + INT + r">::(abs|pow|div_euclid|rem_euclid|next_power_of_two|isqrt|ilog|ilog2|ilog10|"
     r"div_ceil|div_floor|next_multiple_of|strict_[a-z_]+|unchecked_[a-z_]+|midpoint_never)$", "intfn"),
    (r"^<&?" + INT + r" as (std|core)::ops::(Add|Sub|Mul|Div|Rem|Neg|Shl|Shr|AddAssign|SubAssign|MulAssign|DivAssign|"
     r"RemAssign|ShlAssign|ShrAssign)(<.*>)?>::[a-z_]+$", "intop"),
    (r"<impl (std|core)::ops::(Add|Sub|Mul|Div|Rem|Neg|Shl|Shr|AddAssign|SubAssign|MulAssign|DivAssign|"
     r"RemAssign|ShlAssign|ShrAssign)(<.*>)? for &?" + INT + r">::[a-z_]+$", "intop"),
    (r"^<" + INT + r" as (std|core)::iter::(Sum|Product)(<.*>)?>::(sum|product)$", "intsum"),
    (r"^(std|core)::iter::Iterator::(sum|product|step_by)$", "intsum"),
    (r"^<.* as (std|core)::iter::Iterator>::(sum|product|step_by)$", "intsum"),
    (r"^(std|core)::cell::RefCell::(borrow|borrow_mut)$", "refcell"),
    (r"^(std|core)::mem::(forget|transmute|zeroed|uninitialized)$", "mem"),
    (r"^(std|core)::sync::(mpsc|Barrier|Condvar)", "sync"),
    (r"^std::thread::", "thread"),
    (r"^(std|core)::array::<impl .*>::(map)$", "none"),
    (r"^(std|core)::char::from_digit$", "intfn"),
    (r"^(std|core)::time::", "time"),
]
STD_PANICS = [(re.compile(a), b) for a, b in STD_PANICS if b != "none"]

# panicking asserts inserted for debug builds inside std macro expansions only
IGNORED_ASSERTS = {"MisalignedPointerDereference", "NullPointerDereference"}


def classify_callee(path):
    for rx, k in STD_PANICS:
        if rx.search(path):
            return k
    return None


class Site:
    def __init__(self, fn, bb, kind, descr, terms, t):
        self.fn = fn
        self.bb = bb
        self.kind = kind
        self.descr = descr
        self.terms = terms
        self.term = t
        self.ordinal = 0
        self.discharge = None   # (rule, reason)

    @property
    def where(self):
        return self.fn.loc(self.bb)

    def key(self):
        return "%s|%s|%s|#%d" % (self.fn.path, self.kind, self.descr, self.ordinal)


def head_of(site):
    """Callee (for calls) or assert operator: the part of a site that survives operand reshaping."""
    if site.kind.startswith("call:"):
        return M.callee_of(site.term) if site.term.get("res") else M.callee_decl(site.term)
    aty = getattr(site, "aty", None)
    return site.kind + (":" + aty if aty else "")


def short(t, n=160):
    s = M.render(t)
    return s if len(s) <= n else s[:n] + "…"


def enumerate_sites(prog, fn):
    pv = prog.prov(fn)
    sites = []
    for bb, b in enumerate(fn.blocks):
        if b["cleanup"]:
            continue
        t = b["term"]
        if t["k"] == "assert":
            msg = t["msg"]
            if msg in IGNORED_ASSERTS:
                continue
            terms = [pv.of_operand(o) for o in t["ops"]]
            if msg == "BoundsCheck":
                descr = "[%s] of len %s" % (short(terms[1]), short(terms[0]))
            else:
                descr = "%s(%s)" % (msg, ", ".join(short(x) for x in terms))
            st_ = Site(fn, bb, "assert:" + msg.split("(")[0] + ("(" + msg.split("(")[1] if "(" in msg else ""), descr, terms, t)
            # the width of the arithmetic is part of what a reviewed reason relies on ("u16-derived operands cannot overflow usize")
            st_.aty = None
            if msg.startswith("Overflow("):
                for s2 in reversed(b["stmts"]):
                    if s2["k"] == "assign" and s2["rv"].get("k") == "binop" and str(s2["rv"].get("op", "")).endswith("WithOverflow"):
                        st_.aty = s2["rv"].get("aty")
                        break
            sites.append(st_)
        elif t["k"] in ("call", "tailcall"):
            c = M.callee_of(t)
            k = classify_callee(c)
            if k is None:
                # unresolved trait call on a generic integer op etc.
                dc = M.callee_decl(t)
                k = classify_callee(dc) if not t.get("res") else None
                if k is None:
                    continue
                c = dc
            terms = [pv.of_operand(o) for o in t["args"]]
            descr = "%s(%s)" % (c, ", ".join(short(x, 120) for x in terms))
            sites.append(Site(fn, bb, "call:" + k, descr, terms, t))
    # ordinals among equal (kind, descr)
    seen = {}
    for s in sites:
        k = (s.kind, s.descr)
        s.ordinal = seen.get(k, 0)
        seen[k] = s.ordinal + 1
    return sites


# ---------------------------------------------------------------------------
# automatic discharge
# ---------------------------------------------------------------------------

INT_SIZES = {"i8": 1, "u8": 1, "i16": 2, "u16": 2, "i32": 4, "u32": 4, "i64": 8, "u64": 8, "isize": 8, "usize": 8, "i128": 16, "u128": 16}


def _const_of(prog, t):
    t = M.peel(t, casts=True)
    if t.kind == "call" and t.a == "std::mem::size_of" and t.meta and t.meta.get("gargs"):
        g = t.meta["gargs"][0]
        if g in INT_SIZES:
            return INT_SIZES[g]
        if g == "essential_asm::Op" or g == "essential_asm::op::Op":
            return 16
    if t.kind == "const" and isinstance(t.a, int):
        return t.a
    if t.kind == "named":
        return prog.const_value(t.a)
    return None


def auto_discharge(prog, site):
    fn = site.fn
    t = site.term
    k = site.kind
    # D1: constants only
    if k.startswith("assert:"):
        vals = [_const_of(prog, x) for x in site.terms]
        if k == "assert:BoundsCheck":
            ln, ix = vals
            if ln is not None and ix is not None and 0 <= ix < ln:
                return ("D1", "constant index %d below constant length %d" % (ix, ln))
            # array length constant through `Len`/PtrMetadata of a fixed array: index const and array type known
            if ix is not None:
                idxpl = None
                # find the array type: the assert's len operand is usually a constant for arrays
        elif all(v is not None for v in vals):
            return ("D1", "arithmetic on constants %s" % vals)
        if k in ("assert:DivisionByZero", "assert:RemainderByZero"):
            # the assert message carries the dividend; the divisor is in the condition `Eq(divisor, 0)`
            c = prog.prov(fn).of_operand(t["cond"])
            if c.kind == "binop" and c.a == "Eq":
                dv = _const_of(prog, c.sub[0])
                zero = _const_of(prog, c.sub[1])
                if dv is not None and zero == 0 and dv != 0:
                    return ("D5", "constant non-zero divisor %d" % dv)
        if k in ("assert:Overflow(Div)", "assert:Overflow(Rem)"):
            # signed MIN / -1: constant divisor other than -1
            if len(vals) == 2 and vals[1] is not None and vals[1] != -1:
                return ("D5", "constant divisor %d (not -1)" % vals[1])
            # unsigned types have no such assert
        if k in ("assert:Overflow(Shl)", "assert:Overflow(Shr)"):
            # D2: guarded by success of the shift-bound check on the same operand
            atoms = C.conditions(prog, fn, site.bb)
            rhs = M.render(M.peel(site.terms[1], casts=True))
            for a in atoms:
                if a.kind == "variant" and a.terms[0] == "ok" and a.terms[1].kind == "call" and "check_shift_bounds" in a.terms[1].a:
                    arg = M.render(M.peel(a.terms[1].sub[0], casts=True)) if a.terms[1].sub else ""
                    if arg == rhs:
                        return ("D2", "shift amount guarded by success of %s on the same operand" % a.terms[1].a)
            if vals[1] is not None and 0 <= vals[1] < 8:
                return ("D1", "constant shift %d" % vals[1])
    if k == "call:unwrap":
        # D3: unwrap on Result<_, Infallible>
        tys = t.get("arg_tys") or []
        if tys and re.search(r"Result<.*,\s*(std|core)::convert::Infallible>$", M.norm_ty(tys[0])):
            return ("D3", "unwrap of Result<_, Infallible>")
    if k == "call:index":
        c = M.callee_of(t)
        # D5: RangeFull cannot fail
        if re.search(r"Index(Mut)?<(std|core)::ops::RangeFull>", c) or "std::ops::RangeFull" in (t.get("gargs") or [])[1:] \
                or any(M.norm_ty(x) == "std::ops::RangeFull" for x in (t.get("arg_tys") or [])[1:]):
            return ("D5", "indexing with `..` cannot fail")
        # arrays indexed by constant handled as BoundsCheck asserts
    if k == "call:slice":
        c = M.callee_of(t)
        m = re.search(r"::(chunks|chunks_mut|chunks_exact|chunks_exact_mut|rchunks|rchunks_exact|windows)$", c)
        if m and len(site.terms) > 1:
            v = _const_of(prog, site.terms[1])
            if v is not None and v != 0:
                return ("D5", "constant non-zero chunk size %d" % v)
    if k == "call:intfn":
        c = M.callee_of(t)
        if c.endswith(("::div_ceil", "::next_multiple_of", "::div_euclid", "::rem_euclid")) and len(site.terms) > 1:
            v = _const_of(prog, site.terms[1])
            unsigned = re.search(r"<impl u(8|16|32|64|128|size)>", c)
            if v is not None and v != 0 and (unsigned or v != -1):
                return ("D5", "constant non-zero divisor %d" % v)
    if t.get("exp") and re.search(r"\btracing(_core)?::", site.descr):
        return ("D7", "inside the expansion of a tracing macro (feature `tracing`; third-party generated code, trusted)")
    return None


# ---------------------------------------------------------------------------
# reviewed table
# ---------------------------------------------------------------------------

def load_table():
    p = os.path.join(F.VERIF, "tables", "panic_sites.json")
    if not os.path.exists(p):
        return []
    with open(p) as fh:
        return json.load(fh)["sites"]


def relevant_atoms(prog, site):
    """Dominating atoms that share a root with the site's operands."""
    atoms = C.conditions(prog, site.fn, site.bb)
    roots = set()
    for x in site.terms:
        for y in x.walk():
            if y.kind in ("param", "local", "field", "call", "phi"):
                roots.add(M.render(y))
    out = []
    for a in atoms:
        txt_terms = []
        for z in a.terms:
            if isinstance(z, M.T):
                txt_terms.extend(M.render(y) for y in z.walk() if y.kind in ("param", "local", "field", "call", "phi"))
        if roots & set(txt_terms):
            out.append(a)
    return atoms, out


def analyse(prog, fns):
    """Enumerate and auto-discharge. Returns list of Site."""
    out = []
    for fn in fns:
        for s in enumerate_sites(prog, fn):
            s.discharge = auto_discharge(prog, s)
            out.append(s)
    return out


# ---------------------------------------------------------------------------
# table matching
# ---------------------------------------------------------------------------

class Table:
    def __init__(self, entries=None):
        self.entries = entries if entries is not None else load_table()
        self.used = [0] * len(self.entries)
        self.exact_present = {}

    def match_reshaped(self, site):
        """Fallback: a reviewed site whose operands were reshaped by an edit keeps its
        line when function, kind and head (callee / assert operator) agree and the line
        has not been consumed by an exactly matching site; its guards are still re-checked."""
        h = head_of(site)
        for i, e in enumerate(self.entries):
            if "fn" in e and e["fn"] == site.fn.path and e["kind"] == site.kind and e.get("head") == h and self.used[i] == 0 \
                    and not self.exact_present.get(i):
                return i, e
        return None, None

    def match(self, site):
        """Return (entry_index, entry) of the first table line covering this site."""
        for i, e in enumerate(self.entries):
            if e["kind"] != site.kind:
                continue
            if "fn_re" in e:
                if not re.search(e["fn_re"], site.fn.path):
                    continue
            elif e.get("fn") != site.fn.path:
                continue
            if "descr_re" in e:
                if not re.search(e["descr_re"], site.descr):
                    continue
            elif e.get("descr") != site.descr:
                continue
            return i, e
        return None, None

    def check_requires(self, prog, site, e):
        atoms = [a.text for a in C.conditions(prog, site.fn, site.bb)]
        missing = []
        for r in e.get("requires", []):
            if r not in atoms:
                missing.append(r)
        for r in e.get("requires_re", []):
            if r.startswith("caller:"):
                # a fact the reviewed reason takes from the callers: it must dominate every call site of the
                # function containing the construct (closures are lifted to the place where they are created)
                sites = call_sites_of(prog, site.fn)
                if not sites:
                    missing.append("/%s/ (no call site of %s found)" % (r, site.fn.path))
                for f, bb in sites:
                    ca = context_atoms(prog, f, bb)
                    if not any(re.search(r[len("caller:"):], a) for a in ca):
                        missing.append("/%s/ at the call in %s (%s)" % (r, f.path, f.loc(bb)))
                continue
            if not any(re.search(r, a) for a in atoms):
                missing.append("/" + r + "/")
        return missing, atoms


def closure_creation(prog, clo):
    par = prog.fn(clo.parent) if clo.parent else None
    if par is None:
        return None
    for b2, blk in enumerate(par.blocks):
        for st in blk["stmts"]:
            if st["k"] == "assign" and st["rv"].get("k") == "aggr" and st["rv"].get("agg") == "closure" and M.strip_generics(st["rv"].get("closure", "")) == clo.path:
                return par, b2
    return None


def context_atoms(prog, f, bb, depth=0):
    at = [a.text for a in C.conditions(prog, f, bb)]
    if f.kind == "Closure" and depth < 6:
        c = closure_creation(prog, f)
        if c:
            at = context_atoms(prog, c[0], c[1], depth + 1) + at
    return at


def call_sites_of(prog, fn):
    """Call sites of `fn` in the workspace; for a closure, the place where it is created."""
    if fn.kind == "Closure":
        c = closure_creation(prog, fn)
        return [c] if c else []
    idx = getattr(prog, "_call_sites", None)
    if idx is None:
        idx = {}
        for f in prog.fns.values():
            for bb, t in f.calls():
                if f.blocks[bb].get("cleanup"):
                    continue
                idx.setdefault(M.strip_generics(M.callee_of(t)), []).append((f, bb))
        prog._call_sites = idx
    return idx.get(fn.path, [])


def decide_sites(ctx, rule, prog, fns, table=None, label=""):
    """Evaluate every panic-capable site of `fns`: auto-discharge, reviewed
    table line with its recorded guards, or violation."""
    table = table or Table()
    sites = analyse(prog, fns)
    n_auto = n_tab = 0
    # first pass: which lines have an exactly matching site on this tree
    for s in sites:
        if not s.discharge:
            i, e = table.match(s)
            if e is not None:
                table.exact_present[i] = True
    for s in sites:
        ctx.saw(s.fn)
        key = s.key()
        if s.discharge:
            n_auto += 1
            ctx.ob(rule, key, True, s.where, "%s: %s" % s.discharge, s.fn)
            continue
        i, e = table.match(s)
        if e is None:
            i, e = table.match_reshaped(s)
            if e is not None:
                ctx.note("reviewed site reshaped (same function/kind/head, guards re-checked): %s" % key[:200])
        if e is None:
            ctx.ob(rule, key, False, s.where,
                   "unreviewed panic-capable construct `%s` reachable from the %s entry points: %s" % (s.kind, label, s.descr), s.fn)
            continue
        missing, atoms = table.check_requires(prog, s, e)
        table.used[i] += 1
        if missing:
            ctx.ob(rule, key, False, s.where,
                   "reviewed site lost its guard: table line requires %s on every path to the site; dominating conditions now: %s" % (
                       missing, atoms), s.fn)
        else:
            n_tab += 1
            ctx.ob(rule, key, True, s.where, "reviewed (D4): %s" % e["reason"], s.fn)
    return sites, n_auto, n_tab


def draft_entries(prog, fns):
    out = []
    for s in analyse(prog, fns):
        if s.discharge:
            continue
        atoms, rel = relevant_atoms(prog, s)
        out.append({"fn": s.fn.path, "kind": s.kind, "descr": s.descr, "requires": [a.text for a in rel],
                    "reason": "", "_where": s.where})
    return out
