"""State-read routing (shared by C03-R1 and C11-R1): view x contract table."""
import re

from . import mir as M
from . import tables as T

DISPATCH = "essential_vm::sync::step_op_state_reads"


def check_routing(ctx, rule):
    prog = ctx.prog
    f = prog.fn(DISPATCH)
    if not ctx.anchor(rule, "fn sync::step_op_state_reads", f):
        return
    ctx.saw(f)
    pv = prog.prov(f)
    sw = T.entry_switch(f)
    if not ctx.anchor(rule, "switch over asm::StateRead", sw is not None, f.loc(0)):
        return
    d = pv.of_operand(f.term(sw)["discr"])
    ctx.ob(rule, "scrutinee-is-the-op", d.kind == "discr" and M.peel(d.sub[0]).kind == "param", f.loc(sw), "switch on %r" % d, f)
    variants = T.enum_variants(prog, "essential_asm::op::StateRead") or []
    ctx.floor(rule, "StateRead variants", len(variants), 4)
    seen = set()
    for arm in T.arms_of(f, sw):
        if arm.value is None:
            ctx.ob(rule, "otherwise-unreachable", arm.is_unreachable(), arm.where(), "", f)
            continue
        name = T.discr_to_variant(prog, "essential_asm::op::StateRead", arm.value, by="vi")
        seen.add(name)
        calls = arm.calls()
        views = [M.callee_decl(t).split("::")[-1] for _, t in calls if M.callee_decl(t).startswith("essential_vm::state_read::StateReads::")]
        readers = [(b, t) for b, t in calls if M.callee_of(t) in ("essential_vm::state_read::key_range", "essential_vm::state_read::key_range_ext")]
        want_view = "post" if name.startswith("Post") else "pre"
        want_reader = "key_range_ext" if name.endswith("Extern") else "key_range"
        ctx.ob(rule, "%s:view" % name, views == [want_view], arm.where(), "arm calls StateReads::%s; the spec name asks for `%s`" % (views, want_view), f)
        ok = len(readers) == 1 and M.callee_of(readers[0][1]).split("::")[-1] == want_reader
        ctx.ob(rule, "%s:reader" % name, ok, arm.where(), "arm calls %s; the spec name asks for `%s`" % ([M.callee_of(t).split("::")[-1] for _, t in readers], want_reader), f)
        if len(readers) == 1:
            t = readers[0][1]
            a0 = M.peel(pv.of_operand(t["args"][0]))
            ctx.ob(rule, "%s:reader-gets-that-view" % name, a0.kind == "call" and a0.a.endswith("StateReads::" + want_view) and M.peel(a0.sub[0]).kind == "param",
                   arm.where(), "first argument: %r" % a0, f)
            if want_reader == "key_range":
                a1 = M.peel(pv.of_operand(t["args"][1]))
                ctx.ob(rule, "%s:own-contract-address" % name, a1.kind == "param" and a1.a == "contract_addr", arm.where(), "contract argument: %r" % a1, f)
            st_i, mem_i = (2, 3) if want_reader == "key_range" else (1, 2)
            s = M.peel(pv.of_operand(t["args"][st_i]))
            m = M.peel(pv.of_operand(t["args"][mem_i]))
            ctx.ob(rule, "%s:stack-and-memory-passed-through" % name, s.kind == "param" and s.a == "stack" and m.kind == "param" and m.a == "memory", arm.where(),
                   "stack arg %r, memory arg %r" % (s, m), f)
    ctx.ob(rule, "all-variants-routed", seen == {v[0] for v in variants}, f.loc(sw), "arms for %s; variants %s" % (sorted(seen), sorted(v[0] for v in variants)), f)
    # the address handed to the dispatch is the solved predicate's contract
    so = prog.fn("essential_vm::sync::step_op")
    if ctx.anchor(rule, "fn sync::step_op", so):
        ctx.saw(so)
        pvo = prog.prov(so)
        hit = [(bb, t) for bb, t in so.calls() if M.callee_of(t) == DISPATCH]
        if ctx.anchor(rule, "call of step_op_state_reads in step_op", len(hit) == 1, so.loc(0)):
            bb, t = hit[0]
            a = M.render(M.peel(pvo.of_operand(t["args"][1])))
            ok = bool(re.match(r"^\*?essential_vm::access::Access::this_solution\(access\)\.predicate_to_solve\.contract$", a))
            ctx.ob(rule, "own-contract=this_solution.predicate_to_solve.contract", ok, so.loc(bb), "contract address argument: %s" % a, so)
            a2 = M.peel(pvo.of_operand(t["args"][2]))
            ctx.ob(rule, "state-passed-through", a2.kind == "param" and a2.a == "state", so.loc(bb), "state argument %r" % a2, so)
