"""Dispatch tables of the step_op_* functions (C08-R1, reused by C09/C12)."""
import re

from . import mir as M
from . import tables as T

GROUPS = {'access': 'Access', 'alu': 'Alu', 'crypto': 'Crypto', 'parent_memory': 'ParentMemory', 'pred': 'Pred', 'stack': 'Stack',
          'total_control_flow': 'TotalControlFlow', 'memory': 'Memory', 'state_reads': 'StateRead', 'compute': 'Compute'}
NOISE = re.compile(r"ops::(Try|FromResidual|Deref|DerefMut)|Result::(map|map_err)$|convert::(From|Into)|Option::map$|std::panicking::")


def extract(prog):
    """{group: {variant: [(callee, [fn/closure arguments])]}} and the arms, read from MIR."""
    out = {}
    arms_by = {}
    for fnm, g in GROUPS.items():
        f = prog.fn('essential_vm::sync::step_op_' + fnm)
        if f is None:
            continue
        pv = prog.prov(f)
        sws = [bb for bb in range(len(f.blocks)) if f.term(bb)['k'] == 'switch' and M.render(pv.of_operand(f.term(bb)['discr'])) == 'discr(op)']
        tab = {}
        for sw in sws:
            for arm in T.arms_of(f, sw):
                if arm.value is None:
                    continue
                name = T.discr_to_variant(prog, 'essential_asm::op::' + g, arm.value, by='vi')
                calls = []
                for b, t in arm.calls():
                    c = M.callee_of(t) if t.get('res') else M.callee_decl(t)
                    if NOISE.search(c):
                        continue
                    fa = []
                    for a in t['args']:
                        x = pv.of_operand(a)
                        if x.kind == 'fn':
                            fa.append('fn:' + x.a)
                        elif x.kind == 'aggr' and x.a.startswith('closure:'):
                            fa.append('{closure}')
                    calls.append(c + ('(' + ','.join(fa) + ')' if fa else ''))
                if calls or name not in tab:
                    tab.setdefault(name, []).extend(calls)
                    arms_by[(g, name)] = (f, arm)
        out[g] = tab
    return out, arms_by


def closure_of_arm(prog, f, arm):
    """The closure passed in this arm (if exactly one)."""
    pv = prog.prov(f)
    cl = []
    for b, t in arm.calls():
        for a in t['args']:
            x = pv.of_operand(a)
            if x.kind == 'aggr' and x.a.startswith('closure:'):
                cl.append(prog.fn(x.a[len('closure:'):]))
    return cl[0] if len(cl) == 1 else None
