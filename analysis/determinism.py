"""Nondeterminism-source enumeration (C02, shared with C10)."""
import re

from . import mir as M

CRATES = ("essential_vm", "essential_check", "essential_hash", "essential_types", "essential_asm", "essential_sign", "essential_lock")
PAR_CRATES = ("essential_vm", "essential_check")

# rayon consumers (everything that ends a parallel iterator)
CONSUMERS = re.compile(
    r"^rayon::iter::(ParallelIterator|IndexedParallelIterator|ParallelExtend|FromParallelIterator)::"
    r"(collect|collect_into_vec|collect_vec_list|partition|partition_map|unzip|unzip_into_vecs|for_each|for_each_with|for_each_init|try_for_each\w*|"
    r"reduce|reduce_with|try_reduce\w*|try_fold\w*|sum|product|min|max|min_by\w*|max_by\w*|find_any|find_first|find_last|find_map_any|find_map_first|"
    r"position_any|position_first|position_last|any|all|count|while_some|par_extend|from_par_iter|cmp|partial_cmp|eq|ne|lt|le|gt|ge)$")
# adaptors whose result depends on scheduling or on how rayon splits the work: *_any (completion order), block/len tuning,
# and the per-split state adaptors (map_init/map_with/fold*: one state value is shared by however many items land in a split)
ADAPTORS_BAD = re.compile(r"^rayon::iter::\w+::(panic_fuse|with_min_len|with_max_len|by_exponential_blocks|by_uniform_blocks|take_any|skip_any|take_any_while|skip_any_while|"
                          r"map_init|map_with|fold|fold_with|try_fold|try_fold_with|fold_chunks|fold_chunks_with)$")
ORDERED = re.compile(r"^(std::vec::Vec<.*>|std::collections::BTreeMap<.*>|std::collections::BTreeSet<.*>|std::string::String|\(\))$")


def par_calls(prog):
    for fn in prog.fns.values():
        if fn.crate not in PAR_CRATES or fn.kind == "Const":
            continue
        for bb, t in fn.calls():
            c = M.callee_decl(t)
            if c.startswith("rayon::"):
                yield fn, bb, t, c


def split_top(ty):
    """Split `A<..>, B<..>` style tuple/arg list at top level commas."""
    out, depth, cur = [], 0, ""
    for ch in ty:
        if ch in "<([":
            depth += 1
        elif ch in ">)]":
            depth -= 1
        if ch == "," and depth == 0:
            out.append(cur.strip())
            cur = ""
        else:
            cur += ch
    if cur.strip():
        out.append(cur.strip())
    return out


def consumer_ok(name, gargs):
    """Is the consumer's result independent of scheduling?"""
    if name in ("collect", "collect_into_vec", "from_par_iter", "par_extend"):
        out = M.norm_ty(gargs[-1]) if gargs else "?"
        return bool(ORDERED.match(out)), "collects into `%s`" % out
    if name in ("partition", "unzip", "partition_map", "unzip_into_vecs"):
        outs = [M.norm_ty(g) for g in gargs[1:3]]
        return all(ORDERED.match(o) for o in outs) and len(outs) >= 1, "splits into `%s`" % outs
    if name in ("sum", "product", "count", "min", "max"):
        out = M.norm_ty(gargs[-1]) if gargs else "?"
        return bool(re.match(r"^(u|i)(8|16|32|64|128|size)$", out)) or name == "count", "%s over `%s`" % (name, out)
    return False, "consumer `%s` returns or performs effects in completion order" % name


def check_consumers(ctx, rule, only_fn=None):
    prog = ctx.prog
    n = 0
    for fn, bb, t, c in par_calls(prog):
        if only_fn and not re.search(only_fn, fn.path):
            continue
        m = CONSUMERS.match(c)
        if ADAPTORS_BAD.match(c):
            ctx.ob(rule, "%s|%s" % (fn.path, c), False, fn.loc(bb), "adaptor `%s` makes the result depend on scheduling" % c, fn)
            continue
        if not m:
            continue
        n += 1
        ctx.saw(fn)
        ok, why = consumer_ok(m.group(2), t.get("gargs") or [])
        ctx.ob(rule, "%s|%s" % (fn.path, m.group(2)), ok, fn.loc(bb),
               "rayon consumer `%s` %s%s" % (m.group(2), why, "" if ok else
                                             " -- e.g. collecting into Result/Option returns whichever failure is observed first (rayon::result: `if none, store`)"), fn)
    return n


UNORDERED_TY = re.compile(r"std::collections::(HashMap|HashSet)<|std::collections::hash_(map|set)::")
ITER_METHODS = re.compile(r"::(iter|iter_mut|into_iter|keys|values|values_mut|into_keys|into_values|drain|retain|extract_if|extend|from_iter|collect|difference|"
                          r"symmetric_difference|intersection|union|for_each|map|next|fold)$")


def check_unordered_iteration(ctx, rule):
    prog = ctx.prog
    n = 0
    for fn in prog.fns.values():
        if fn.crate not in CRATES or fn.kind == "Const" or (fn.exp and "serde" in fn.path):
            continue
        for bb, t in fn.calls():
            if fn.blocks[bb]["cleanup"]:
                continue
            c = M.callee_of(t) if t.get("res") else M.callee_decl(t)
            tys = [M.norm_ty(x) for x in t.get("arg_tys", [])]
            if not tys:
                continue
            recv = tys[0]
            head = recv
            while head.startswith("&"):
                head = head[1:].lstrip()
                if head.startswith("mut "):
                    head = head[4:]
            head = head.split("<")[0]
            is_hash_recv = bool(re.match(r"^std::collections::(HashMap|HashSet|hash_map::\w+|hash_set::\w+)$", head))
            if not is_hash_recv:
                continue
            n += 1
            last = c.split("::")[-1]
            iterating = last in ("iter", "iter_mut", "into_iter", "keys", "values", "values_mut", "into_keys", "into_values", "drain", "retain", "extract_if",
                                 "difference", "symmetric_difference", "intersection", "union", "next", "for_each", "fold", "map")
            # Extend::extend(&mut HashSet, iter) inserts *into* the set: order-free.  IntoIterator for &HashMap is iteration.
            if last == "extend" or last == "from_iter":
                iterating = False
            if iterating:
                ctx.ob(rule, "%s|%s" % (fn.path, M.short_path(c)), False, fn.loc(bb), "iteration over an unordered collection: `%s` on `%s`" % (c, recv[:120]), fn)
    ctx.ob(rule, "no-unordered-iteration", True, "", "%d call sites with a HashMap/HashSet receiver inspected (membership tests, get, insert, entry, == are order-free)" % n)
    return n


SHARED = re.compile(r"std::sync::(Mutex|RwLock|Condvar|Barrier|mpsc|atomic::Atomic\w+|Once\b|LazyLock)|std::cell::(Cell|RefCell|UnsafeCell|OnceCell)|std::thread::(LocalKey|JoinHandle)|"
                    r"crossbeam|parking_lot|std::sync::atomic::")


def check_shared_state(ctx, rule):
    prog = ctx.prog
    found_once = []
    for path, adt in prog.adts.items():
        crate = path.split("::")[0]
        if crate not in PAR_CRATES:
            continue
        for v in adt["variants"]:
            for f in v["fields"]:
                ty = M.norm_ty(f["ty"])
                if SHARED.search(ty):
                    ctx.ob(rule, "field:%s.%s" % (path, f["name"]), False, "%s:%d" % (adt["span"]["file"], adt["span"]["line"]), "field of type `%s`" % ty)
                if "std::sync::OnceLock<" in ty:
                    found_once.append((path, f["name"], ty))
    for fn in prog.fns.values():
        if fn.crate not in PAR_CRATES or fn.kind == "Const" or fn.exp:
            continue
        for i, l in enumerate(fn.locals):
            ty = M.norm_ty(l["ty"])
            if SHARED.search(ty) and not ty.startswith("&"):
                ctx.ob(rule, "local:%s:%s" % (fn.path, ty[:80]), False, "%s:%d" % (fn.file, fn.line), "local of type `%s`" % ty, fn)
    for s in [s for c in PAR_CRATES for s in prog.crates[c]["statics"]]:
        if re.search(r"::__CALLSITE(::META)?$", s["path"]):
            ctx.note("tracing callsite static %s (feature `tracing`): interest cache of the logging macros, does not feed results" % s["path"])
            continue
        ctx.ob(rule, "static:%s" % s["path"], "mut" not in s.get("dbg", "").lower() and not SHARED.search(s["ty"]), s["path"], "static of type `%s` (%s)" % (s["ty"], s.get("dbg")))
    ctx.ob(rule, "OnceLock-inventory", [(p, n) for p, n, _ in found_once] == [("essential_vm::cached::LazyCache", "pred_data_hashes")] or not found_once, "crates/vm/src/cached.rs",
           "OnceLock fields: %s" % found_once)
    # every get_or_init initialiser depends only on the solutions shared by all VMs of one check
    for fn in prog.fns.values():
        if fn.crate not in PAR_CRATES:
            continue
        pv = None
        for bb, t in fn.calls():
            if M.callee_of(t) == "std::sync::OnceLock::get_or_init":
                pv = pv or prog.prov(fn)
                clo = pv.of_operand(t["args"][1])
                caps = [M.render(M.peel(x)) for x in clo.sub] if clo.kind == "aggr" else ["?"]
                ok = clo.kind == "aggr" and all(re.match(r"^(solutions|access\.solutions|<env>\.\w*solutions\w*)$", x) for x in caps)
                ctx.saw(fn)
                ctx.ob(rule, "get_or_init:%s" % fn.path, ok, fn.loc(bb),
                       "OnceLock initialiser captures %s: every racing initialiser computes the same value from the shared solutions" % caps, fn)


AMBIENT = re.compile(r"^(std::time::|std::env::|std::thread::(current|available_parallelism|sleep|yield_now|park|spawn|scope)|rayon::(current_num_threads|current_thread_index|max_num_threads|"
                     r"spawn|join|scope|ThreadPool)|rayon_core::|rand::|rand_core::|getrandom::|std::fs::|std::net::|std::process::id|std::collections::hash_map::RandomState::new|"
                     r"std::hash::random::|std::ptr::addr_of|std::sync::mpsc)")


def check_ambient(ctx, rule):
    prog = ctx.prog
    n = 0
    for fn in prog.fns.values():
        if fn.crate not in PAR_CRATES or fn.kind == "Const":
            continue
        for bb, t in fn.calls():
            c = M.callee_of(t) if t.get("res") else M.callee_decl(t)
            n += 1
            if AMBIENT.match(c):
                ctx.ob(rule, "%s|%s" % (fn.path, c), False, fn.loc(bb), "ambient input `%s` (time, environment, thread identity, pool size, randomness, I/O)" % c, fn)
        # pointer-to-integer casts expose addresses
        for b in fn.blocks:
            for st in b["stmts"]:
                if st["k"] == "assign" and st["rv"]["k"] == "cast" and "PointerExposeProvenance" in st["rv"]["kind"]:
                    ctx.ob(rule, "%s|ptr-to-int" % fn.path, False, "%s:%d" % (fn.file, st.get("line", fn.line)), "pointer address used as a value", fn)
    ctx.ob(rule, "no-ambient-inputs", True, "", "%d call sites in essential-vm / essential-check inspected" % n)
    return n


def check_unsafe(ctx, rule):
    prog = ctx.prog
    for c in CRATES:
        data = prog.crates[c]
        ctx.ob(rule, "crate-denies-unsafe:" + c, data["unsafe_code_level"] in ("Deny", "Forbid"), c, "unsafe_code lint level at the crate root: %s" % data["unsafe_code_level"])
        bad = [f["path"] for f in data["fns"] if f.get("unsafe_blocks") or f.get("unsafe_fn")]
        ctx.ob(rule, "no-unsafe-blocks:" + c, not bad, c, "functions with unsafe blocks: %s" % bad[:5])
        ub = [i["self"] for i in data["impls"] if i.get("unsafe_impl") and not i.get("exp")]
        ctx.ob(rule, "no-unsafe-impls:" + c, not ub, c, "hand-written unsafe impls: %s" % ub[:5])


# functions in which rayon is used, reviewed for C02/C10 (what they collect into, what their closures capture)
PAR_SITES = {"essential_vm::compute::compute", "essential_check::solution::check_set_predicates", "essential_check::solution::check_predicate_inner"}


def check_par_sites(ctx, rule):
    """A new place that drives a parallel iterator needs review: its closures run on pool workers that also execute other
    pending jobs while they wait (work stealing), which matters for shared state, for blocking initialisers and for ordering."""
    prog = ctx.prog
    seen = {}
    for fn, bb, t, c in par_calls(prog):
        top = re.sub(r"(::\{closure#\d+\})+$", "", fn.path)
        seen.setdefault(top, (fn, bb))
    for top, (fn, bb) in sorted(seen.items()):
        ctx.ob(rule, "parallel-site:" + top, top in PAR_SITES, fn.loc(bb), "rayon is driven from %s%s" % (top, "" if top in PAR_SITES else " -- not one of the reviewed parallel sites %s" % sorted(PAR_SITES)), fn)
    return len(seen)


ONCE = re.compile(r"(OnceLock(<T>)?::(get_or_init|get_or_try_init)|OnceCell(<T>)?::(get_or_init|get_or_try_init)|LazyLock(<T, F>)?::(new|force)|sync::Once::(call_once|call_once_force))$")


def check_once_initialisers(ctx, rule):
    """An initialiser run under OnceLock::get_or_init blocks every other caller of the same cell.  If it waits on the rayon
    pool, the waiting worker may pick up a job that calls the same cell again and never return (re-entrant initialisation)."""
    prog = ctx.prog
    n = 0
    for fn in prog.fns.values():
        if fn.crate not in CRATES or fn.kind == "Const":
            continue
        pv = None
        for bb, t in fn.calls():
            if not ONCE.search(M.callee_of(t)):
                continue
            n += 1
            pv = pv or prog.prov(fn)
            roots = []
            for a in t["args"]:
                x = M.peel(pv.of_operand(a), transparent=False)
                if x.kind == "aggr" and str(x.a).startswith("closure:"):
                    roots.append(x.a[len("closure:"):])
                elif x.kind == "fn":
                    roots.append(M.strip_generics(x.a))
            reach, _ = prog.reachable_from([r for r in roots if r in prog.fns])
            par = []
            for p in sorted(reach):
                g = prog.fns[p]
                for b2, t2 in g.calls():
                    c2 = M.callee_decl(t2)
                    if c2.startswith("rayon::") or c2.startswith("rayon_core::"):
                        par.append((g.path, c2.split("::")[-1]))
            ctx.saw(fn)
            ctx.ob(rule, "once-initialiser-does-not-wait-on-the-pool:" + fn.path, not par, fn.loc(bb),
                   "initialiser %s reaches %d function(s); rayon calls among them: %s" % (roots, len(reach), par[:3]), fn)
    return n
