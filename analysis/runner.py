"""Runner: evaluates the rules of one property on the facts of the current tree,
prints rule instances, writes evidence and violation files."""
import importlib
import json
import os
import sys
import time
import traceback

from . import facts as F
from . import mir as M

VERIF = F.VERIF
EVID = os.environ.get("ESSB_EVIDENCE_DIR") or os.path.join(VERIF, "evidence")


class AnchorMissing(Exception):
    pass


class Ctx:
    def __init__(self, prop, tier, prog, config="default", repo=None):
        self.repo = repo or F.REPO
        self.prop = prop
        self.tier = tier
        self.prog = prog
        self.config = config
        self.obligations = []   # dicts
        self.analysed = {"functions": set(), "call_sites": 0, "paths": 0}
        self.notes = []
        self.rules = {}

    def rule(self, rid, text):
        self.rules[rid] = text

    def ob(self, rule, key, ok, where="", detail="", fn=None):
        """Record one obligation. key must be stable under unrelated edits (no line numbers)."""
        self.obligations.append({
            "rule": rule, "key": key, "ok": bool(ok), "where": where, "detail": detail,
            "fn": fn.path if isinstance(fn, M.Fn) else fn, "config": self.config,
        })
        if isinstance(fn, M.Fn):
            self.analysed["functions"].add(fn.path)
        return ok

    def anchor(self, rule, what, found, where=""):
        """Fail closed when an anchor is missing."""
        return self.ob(rule, "anchor:" + what, bool(found), where,
                       "anchor found" if found else "anchor missing / rule vacuous: " + what)

    def floor(self, rule, what, count, minimum):
        return self.ob(rule, "floor:" + what, count >= minimum, "",
                       "%s: %d instance(s), floor %d" % (what, count, minimum))

    def note(self, s):
        self.notes.append(s)

    def saw(self, fn):
        self.analysed["functions"].add(fn.path if isinstance(fn, M.Fn) else fn)


def load_known():
    p = os.path.join(VERIF, "known_findings.json")
    if not os.path.exists(p):
        return {"open": [], "fixed": []}
    with open(p) as fh:
        return json.load(fh)


PROPS = ["C%02d" % i for i in range(1, 21)]


def run_property(prop, tier, seed, out=sys.stdout):
    t0 = time.time()
    mod = importlib.import_module("analysis.rules." + prop)
    meta = getattr(mod, "META", {})
    configs = ["default"]
    if tier == "thorough" and meta.get("all_features"):
        # only rules that do not depend on function shape are evaluated on the instrumented build
        configs.append("all-features")
    all_obs = []
    rules = {}
    analysed_fns = set()
    notes = []
    for cfg in configs:
        try:
            d = F.ensure_facts(cfg)
        except F.BuildError as e:
            out.write("ERROR: %s\n" % e)
            return 2
        prog = M.Program(d)
        ctx = Ctx(prop, tier, prog, cfg)
        try:
            mod.run(ctx)
        except AnchorMissing as e:
            ctx.ob("anchor", "anchor:" + str(e), False, "", "anchor missing: %s" % e)
        all_obs.extend(ctx.obligations)
        rules.update(ctx.rules)
        analysed_fns |= ctx.analysed["functions"]
        notes.extend(ctx.notes)

    # merge obligations of the two configurations by (rule,key): violated if violated in any
    merged = {}
    for o in all_obs:
        k = (o["rule"], o["key"])
        if k not in merged:
            merged[k] = dict(o)
            merged[k]["configs"] = [o["config"]]
        else:
            m = merged[k]
            m["configs"].append(o["config"])
            if not o["ok"] and m["ok"]:
                m.update({"ok": False, "where": o["where"], "detail": o["detail"], "fn": o["fn"]})
    obs = list(merged.values())

    known = load_known()
    open_k = {(k["property"], k["rule"], k["key"]): k for k in known.get("open", [])}
    violations = []
    known_hits = []
    for o in obs:
        if o["ok"]:
            continue
        kk = (prop, o["rule"], o["key"])
        if kk in open_k:
            known_hits.append((o, open_k[kk]))
        else:
            violations.append(o)
    stale = [k for kk, k in open_k.items() if kk[0] == prop and not any(
        (not o["ok"]) and o["rule"] == kk[1] and o["key"] == kk[2] for o in obs)]

    # report
    by_rule = {}
    for o in obs:
        r = by_rule.setdefault(o["rule"], [0, 0])
        r[0] += 1
        r[1] += 1 if o["ok"] else 0
    out.write("property %s tier=%s configs=%s\n" % (prop, tier, ",".join(configs)))
    for r in sorted(by_rule):
        out.write("  rule %-10s %3d obligation(s), %3d discharged  -- %s\n" % (r, by_rule[r][0], by_rule[r][1], rules.get(r, "")[:110]))
    vdir = os.path.join(EVID, "violations")
    os.makedirs(vdir, exist_ok=True)
    for fn in os.listdir(vdir):
        if fn.startswith(prop + "-"):
            os.unlink(os.path.join(vdir, fn))
    for o, k in known_hits:
        out.write("KNOWN-FINDING: property=%s %s [%s %s at %s]\n" % (prop, k["what"], o["rule"], o["key"], o["where"]))
    for k in stale:
        out.write("note: known finding no longer matches (stale, suppresses nothing): %s %s\n" % (k["rule"], k["key"]))
    for i, o in enumerate(violations):
        p = os.path.join(vdir, "%s-%d.json" % (prop, i))
        with open(p, "w") as fh:
            json.dump({"property": prop, "rule": o["rule"], "key": o["key"], "where": o["where"], "fn": o["fn"],
                       "detail": o["detail"], "rule_text": rules.get(o["rule"], ""), "configs": o["configs"]}, fh, indent=1)
        out.write("  violated: [%s] %s\n      at %s in %s\n      %s\n" % (o["rule"], o["key"], o["where"], o["fn"], o["detail"]))
        out.write("VIOLATION property=%s replay=%s\n" % (prop, p))

    # checker self-test (thorough tier)
    st = None
    if tier == "thorough":
        from . import selftest
        ok_keys = {(k[1], k[2]) for k in open_k if k[0] == prop}
        st = selftest.run(prop, out, lambda prog_, repo_: Ctx(prop, tier, prog_, "default", repo=repo_), ok_keys)
        if st["missed"]:
            out.write("SELFTEST-MISS property=%s variants=%s (the checker failed to detect its own seeded variants: broken checker)\n" % (prop, ",".join(st["missed"])))

    # evidence
    nontrivial = [o for o in obs if not o["key"].startswith(("floor:",))]
    samples = []
    seen_rules = set()
    for o in obs:
        if o["rule"] not in seen_rules or not o["ok"]:
            seen_rules.add(o["rule"])
            samples.append({"rule": o["rule"], "obligation": o["key"], "where": o["where"], "fn": o["fn"],
                            "verdict": "holds" if o["ok"] else "violated", "detail": o["detail"][:400]})
    samples = samples[:60]
    ev = {
        "property_id": prop,
        "tier": tier,
        "seed": seed,
        "level": "other",
        "coverage": {
            "explanation": meta.get("explanation", "") + "  NOT decided by this check: " + meta.get("not_decided", ""),
            "rule": "static rules over type-checked MIR facts of /repo's working tree (rustc_private driver, no execution); "
                    "one obligation per rule instance (site / table row / path); non-trivial = the rule's anchor was found "
                    "in the code and the obligation compares two independently obtained facts; distinct = distinct (rule, site key)",
            "evaluations": len(all_obs),
            "distinct_nontrivial": len({(o["rule"], o["key"]) for o in nontrivial}),
            "obligations": len(obs),
            "discharged": sum(1 for o in obs if o["ok"]),
            "known_findings_matched": len(known_hits),
            "rules": rules,
            "rule_instances": {r: v[0] for r, v in by_rule.items()},
            "samples": samples,
            "functions_analysed": sorted(analysed_fns)[:400],
            "functions_analysed_count": len(analysed_fns),
            "configs": configs,
            "checker_cmd": "./verif check %s --tier %s" % (prop, tier),
            "trusted_base": meta.get("trusted_base", []) + [
                "rustc nightly (type checking, MIR construction)", "the fact extractor /verif/driver",
                "std and third-party crates behave as documented"],
            "notes": notes[:50],
            "selftest_variants": st["variants"] if st else None,
            "selftest_detected": st["detected"] if st else None,
            "selftest_missed": st["missed"] if st else None,
            "selftest_skipped": st["skipped"] if st else None,
            "selftest_details": st["details"] if st else None,
            "exhaustive": True,
        },
        "assumptions": meta.get("assumptions", []) + [
            "#[cfg(test)] code is not analysed",
            "caller-supplied trait implementations (StateRead, GetPredicate, GetProgram, OpGasCost) are deterministic and total"],
        "wall_s": round(time.time() - t0, 2),
        "violations": len(violations),
    }
    os.makedirs(EVID, exist_ok=True)
    with open(os.path.join(EVID, prop + ".json"), "w") as fh:
        json.dump(ev, fh, indent=1)
    out.write("%s: %d obligations, %d discharged, %d known finding(s), %d violation(s) in %.1fs\n" % (
        prop, len(obs), ev["coverage"]["discharged"], len(known_hits), len(violations), ev["wall_s"]))
    if violations:
        return 1
    if st and st["missed"]:
        return 2
    return 0


def main(argv):
    cmd = argv[0]
    if cmd == "replay":
        with open(argv[1]) as fh:
            v = json.load(fh)
        print("replaying %s rule %s key %s" % (v["property"], v["rule"], v["key"]))
        rc = run_property(v["property"], "quick", 0)
        return rc
    prop = argv[1]
    tier = os.environ.get("VERIF_TIER", "quick")
    if "--tier" in argv:
        tier = argv[argv.index("--tier") + 1]
    seed = int(os.environ.get("VERIF_SEED", "0") or 0)
    try:
        return run_property(prop, tier, seed)
    except Exception:
        traceback.print_exc()
        return 2
