"""Positional (postcard) framing of the derived serde impls of essential-types.

postcard is not self-describing: a struct is its fields' encodings in declaration order, nothing else.
The content addresses hash those bytes (C17) and binary round trips decode them (C18), so for every struct
whose Serialize is derived: every declared field is written, unconditionally, in declaration order, and the
derived visit_seq reads back one element of each field's type in the same order.  `skip_serializing_if`,
`skip`, `flatten` or a hand-written partial impl break this while JSON keeps working."""
import re

from . import cond as C
from . import mir as M


def check(ctx, rid):
    prog = ctx.prog
    n = 0
    for f in sorted(prog.fns.values(), key=lambda x: x.path):
        m = re.match(r"^essential_types::(?:\w+::)*_::<impl serde::ser::Serialize for (essential_types::[\w:]+)>::serialize$", f.path)
        if not m:
            continue
        ty = m.group(1)
        adt = prog.adts.get(ty)
        if adt is None or adt.get("kind") != "Struct":
            continue
        pv = prog.prov(f)
        ss = [(bb, t) for bb, t in f.calls() if M.callee_decl(t) == "serde::ser::Serializer::serialize_struct"]
        if not ss:
            continue   # newtype / transparent impls have no framing of their own
        fields = adt["variants"][0]["fields"]
        n += 1
        ctx.saw(f)
        short = ty.split("::")[-1]
        sf = [(bb, t) for bb, t in f.calls() if M.callee_decl(t) == "serde::ser::SerializeStruct::serialize_field"]
        skips = [bb for bb, t in f.calls() if M.callee_decl(t) == "serde::ser::SerializeStruct::skip_field"]
        names = []
        cond_bad = []
        for bb, t in sorted(sf):
            a = M.peel(pv.of_operand(t["args"][2]))
            r = M.render(a)
            mm = re.search(r"self\.(\w+)\b", r)
            names.append(mm.group(1) if mm else r[:40])
            for at in C.conditions(prog, f, bb):
                if not at.text.startswith("ok(") and not at.text.startswith("is:Ok("):
                    cond_bad.append((names[-1], at.text[:80]))
        order_ok = all(f.cfg().dominates(sorted(sf)[i][0], sorted(sf)[i + 1][0]) for i in range(len(sf) - 1))
        want = [x["name"] for x in fields]
        ctx.ob(rid, "%s:writes-every-field-in-declaration-order" % short, names == want and order_ok and not skips, f.loc(0),
               "serialize_field for %s; declared %s; skip_field calls: %d" % (names, want, len(skips)), f)
        ctx.ob(rid, "%s:fields-written-unconditionally" % short, not cond_bad, f.loc(0), "conditions other than success of the previous field: %s" % cond_bad[:3], f)
        # the visitor's visit_seq reads one element per field, typed as declared, in order
        vs = [g for g in prog.fns.values() if g.path.startswith("<" + f.path.rsplit("::<impl", 1)[0]) and ("Deserialize<'de> for %s>::deserialize::__Visitor" % ty) in g.path and g.path.endswith("::visit_seq")]
        if ctx.anchor(rid, "%s: derived visit_seq" % short, len(vs) == 1, f.loc(0)):
            g = vs[0]
            ctx.saw(g)
            ne = sorted((bb, t) for bb, t in g.calls() if M.callee_decl(t) == "serde::de::SeqAccess::next_element" or M.callee_decl(t) == "serde::de::SeqAccess::next_element_seed")
            tys = [M.norm_ty((t.get("gargs") or ["?"])[-1]) for _, t in ne]
            wtys = [M.norm_ty(x["ty"]) for x in fields]
            plain = [M.callee_decl(t).endswith("next_element") for _, t in ne]
            # a field with `deserialize_with` is read through a visitor-local __DeserializeWith wrapper of its type
            ok = len(ne) == len(fields) and all(a == b or "__DeserializeWith" in a for a, b in zip(tys, wtys))
            ctx.ob(rid, "%s:reads-one-element-per-field-in-order" % short, ok, g.loc(0), "next_element types %s; declared %s" % (tys, wtys), g)
    ctx.floor(rid, "derived struct Serialize impls of essential-types", n, 7)
