"""Checker self-test (thorough tier): every seeded variant of selftest/corpus.json that
still compiles must make the named rule of its property fire.  Scratch copies live in a
temporary directory outside /repo and /verif and are removed as soon as analysed."""
import importlib
import json
import os
import shutil
import subprocess
import tempfile

from . import facts as F
from . import mir as M


def load_corpus():
    with open(os.path.join(F.VERIF, "selftest", "corpus.json")) as fh:
        return json.load(fh)["variants"]


def run(prop, out, make_ctx, open_keys):
    mod = importlib.import_module("analysis.rules." + prop)
    res = {"variants": 0, "detected": 0, "missed": [], "skipped": [], "details": []}
    for v in [x for x in load_corpus() if x["prop"] == prop]:
        res["variants"] += 1
        tmp = tempfile.mkdtemp(prefix="essb-selftest-")
        try:
            repo = os.path.join(tmp, "repo")
            subprocess.check_call(["rsync", "-a", "--exclude", "target", "--exclude", ".git", F.REPO + "/", repo + "/"])
            p = os.path.join(repo, v["file"])
            src = open(p).read()
            if v["old"] not in src:
                res["variants"] -= 1
                res["skipped"].append("%s (anchor text not present on this tree)" % v["name"])
                continue
            with open(p, "w") as fh:
                fh.write(src.replace(v["old"], v["new"], 1))
            try:
                d = F.ensure_facts("default", repo=repo, log=open(os.devnull, "w"))
            except F.BuildError:
                res["variants"] -= 1
                res["skipped"].append("%s (variant does not compile on this tree)" % v["name"])
                continue
            prog = M.Program(d)
            ctx = make_ctx(prog, repo)
            try:
                mod.run(ctx)
            except Exception as e:  # a crash of a rule on a variant is a miss, not a pass
                ctx.obligations.append({"rule": "crash", "key": repr(e), "ok": True})
            bad = [o for o in ctx.obligations if not o["ok"] and (o["rule"], o["key"]) not in open_keys]
            hit = [o for o in bad if o["rule"].startswith(v["rule"]) and v.get("key", "") in o["key"]]
            if hit:
                res["detected"] += 1
                res["details"].append({"variant": v["name"], "fired": "%s %s" % (hit[0]["rule"], hit[0]["key"][:120]), "at": hit[0]["where"]})
            else:
                res["missed"].append(v["name"])
                res["details"].append({"variant": v["name"], "fired": None, "other_violations": ["%s %s" % (o["rule"], o["key"][:80]) for o in bad[:5]]})
            shutil.rmtree(d, ignore_errors=True)
        finally:
            shutil.rmtree(tmp, ignore_errors=True)
        out.write("  selftest %-34s %s\n" % (v["name"], "detected" if v["name"] not in res["missed"] else "MISSED"))
    return res
