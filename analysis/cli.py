import sys
from . import facts as F
from . import mir as M


def load(config="default"):
    d = F.ensure_facts(config)
    return M.Program(d)


def main(argv):
    if not argv:
        print(__doc__)
        return 2
    cmd = argv[0]
    if cmd == "setup":
        F.build_driver()
        F.ensure_facts("default")
        print("setup ok")
        return 0
    if cmd == "dump":
        prog = load()
        for fn in sorted(prog.find_fns(argv[1]), key=lambda f: f.path):
            M.dump_fn(fn, sys.stdout)
        return 0
    if cmd == "fns":
        prog = load()
        import re
        rx = re.compile(argv[1]) if len(argv) > 1 else None
        for p in sorted(prog.fns):
            if rx is None or rx.search(p):
                f = prog.fns[p]
                print("%-110s %s:%d %s" % (p, f.file, f.line, f.vis or ""))
        return 0
    if cmd in ("check", "replay"):
        from . import runner
        return runner.main(argv)
    print("unknown command", cmd)
    return 2
