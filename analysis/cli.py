import sys
from . import facts as F
from . import mir as M


def load(config="default"):
    d = F.ensure_facts(config)
    return M.Program(d)


def main(argv):
    if not argv:
        print(__doc__)
        return 2
    cmd = argv[0]
    if cmd == "setup":
        F.build_driver()
        F.ensure_facts("default")
        print("setup ok")
        return 0
    if cmd == "dump":
        prog = load()
        for fn in sorted(prog.find_fns(argv[1]), key=lambda f: f.path):
            M.dump_fn(fn, sys.stdout)
        return 0
    if cmd == "fns":
        prog = load()
        import re
        rx = re.compile(argv[1]) if len(argv) > 1 else None
        for p in sorted(prog.fns):
            if rx is None or rx.search(p):
                f = prog.fns[p]
                print("%-110s %s:%d %s" % (p, f.file, f.line, f.vis or ""))
        return 0
    if cmd == "panic-draft":
        return panic_draft(argv[1:])
    if cmd == "inventory":
        return inventory(argv[1:])
    if cmd in ("check", "replay"):
        from . import runner
        return runner.main(argv)
    print("unknown command", cmd)
    return 2


def inventory(argv):
    """verif inventory <root-regex>... : list panic-capable sites reachable from roots"""
    from . import panic as P
    prog = load()
    roots = []
    for rx in argv:
        roots += [f.path for f in prog.find_fns(rx)]
    reach, parent = prog.reachable_from(roots)
    fns = [prog.fns[p] for p in sorted(reach)]
    sites = P.analyse(prog, fns)
    print("roots=%d reachable=%d sites=%d" % (len(roots), len(reach), len(sites)))
    for s in sites:
        atoms, rel = P.relevant_atoms(prog, s)
        print("%s %s\n    %s\n    %s\n    discharge=%s\n    atoms=%s" % (s.where, s.fn.path, s.kind, s.descr, s.discharge, [a.text for a in rel]))


def panic_draft(argv):
    import json
    from . import panic as P
    from .rules import C05, C06
    prog = load()
    roots = []
    for rx in C05.ENTRY + C06.ENTRY + [r"^essential_sign::", r"^essential_hash::"]:
        roots += [f.path for f in prog.find_fns(rx)]
    reach, _ = prog.reachable_from(roots)
    fns = [prog.fns[p] for p in sorted(reach)]
    ents = P.draft_entries(prog, fns)
    print(json.dumps({"sites": ents}, indent=1))
