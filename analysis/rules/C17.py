"""C17 — content addresses are canonical, order-independent and injective up to SHA-256."""
from .. import hashing as H

META = {
    "explanation": "R1 sort-before-hash for contracts and solution sets: the hashed iterator walks the very slice that was sorted (sort dominates the hash, nothing reorders in between), "
                   "each element is the fixed-width 32-byte address, the salt is appended after the sorted addresses. R2 delegation agreement: every address entry point of a type "
                   "(content_addr, Address::content_address, from_contract / from_set, from_*_addrs, from_*_addrs_slice) reaches one hashing leaf with unmodified arguments; predicate -> SHA-256 of "
                   "Predicate::encode, program -> SHA-256 of its bytes, solution -> SHA-256 of postcard bytes; every SHA-256 user is new/update(input)/finalize. R3 encoder, size helper and decoder agree on the "
                   "layout: widths are read from the encoder's iterator chain (2 + 34 per node + 2 + 2 per edge), the size helper's linear form must equal them, the decoder's offsets must be 0, 2, 2+34n, 4+34n. "
                   "R4 injectivity skeleton: every variable-length part is preceded by its length and all widths are constants (emission order of the encoder).",
    "not_decided": "injectivity of postcard, collision resistance of SHA-256 (trusted); that invalid predicates (too many nodes/edges) share the all-zero address is documented behaviour.",
    "trusted_base": ["sha2, postcard", "slice::sort and the derived Ord of ContentAddress"],
}


def run(ctx):
    ctx.rule("R1", "sort-before-hash on the very slice that is hashed; 32-byte elements; salt last")
    ctx.rule("R2", "delegation agreement: one hashing leaf per type, arguments forwarded unmodified; SHA-256 users are new/update/finalize")
    ctx.rule("R3", "encoder / size helper / decoder agree on the predicate layout (R4: length-prefixed, constant widths, emission order)")
    ctx.rule("R4", "the pre-hash encoding of the serde-hashed types is positional and complete: every declared field is written unconditionally in declaration order (postcard is not self-describing)")
    from .. import serdepos
    serdepos.check(ctx, "R4")
    ctx.rule("R5", "the comparisons that canonicalisation relies on (sort, dedup, set membership) are the derived structural PartialEq/Eq/Ord/Hash of the value types")
    H.structural_traits(ctx, "R5")
    H.sort_before_hash(ctx, "R1", "essential_hash::contract_addr::from_predicate_addrs_slice", salt=True)
    H.sort_before_hash(ctx, "R1", "essential_hash::solution_set_addr::from_solution_addrs_slice", salt=False)
    H.delegation(ctx, "R2")
    H.sha_leaves(ctx, "R2")
    H.hash_bytes_exact(ctx, "R2")
    H.layout(ctx, "R3")
