"""C16 — validators accept exactly the documented limits; computed sets stay valid."""
import re

from .. import cond as C
from .. import mir as M

META = {
    "explanation": "R1 limit table: every comparison in essential-check against one of the eight limit constants is collected from MIR; for each the constant must evaluate "
                   "to the documented number, the compared quantity must be the documented one, the rejecting edge must be exactly `LIMIT < quantity` after normalisation "
                   "(so `>=` for `>` or a swapped constant is caught), must construct the documented error and must be unconditional (only loop-iteration and earlier-accept "
                   "conditions may dominate it). R2 call plumbing: check_set / check_contract / check_signed_contract are guarded by success of their sub-validators with the "
                   "right arguments. R3 one mutation per key per solution: the duplicate test probes a set that lives across the mutations of one solution with the mutation's key. "
                   "R4 the mutation-computing check probes a set that already contains the declared keys before it appends a computed mutation.",
    "not_decided": "that the quantities are computed correctly by std (len) and state_mutations_len (a sum, see C06); the signature check itself (C19).",
}

LIMITS = [
    # (limit const path, documented value, quantity regex, function regex, error variant regex)
    ("essential_check::solution::MAX_SOLUTIONS", 100, r"^slice::len\(solutions\)$", r"check_solutions$", "TooMany"),
    ("essential_check::solution::MAX_PREDICATE_DATA", 100, r"^Vec::len\(.*\.predicate_data\)$", r"check_solutions$", "PredicateDataLenExceeded"),
    ("essential_check::solution::MAX_VALUE_SIZE", 10000, r"^slice::len\(value\)$", r"check_value_size$", "ValueTooLarge"),
    ("essential_check::solution::MAX_KEY_SIZE", 1000, r"^slice::len\(value\)$", r"check_key_size$", "KeyTooLarge"),
    ("essential_check::solution::MAX_STATE_MUTATIONS", 1000, r"^essential_types::solution::SolutionSet::state_mutations_len\(set\)$", r"check_set_state_mutations$", "TooMany"),
    ("essential_check::predicate::MAX_PREDICATES", 100, r"^slice::len\(predicates\)$", r"check_contract$", "TooManyPredicates"),
    ("essential_types::predicate::Predicate::MAX_NODES", 1000, r"^Vec::len\(\*?predicate\.nodes\)$", r"predicate::check$", "TooManyNodes"),
    ("essential_types::predicate::Predicate::MAX_EDGES", 1000, r"^Vec::len\(\*?predicate\.edges\)$", r"predicate::check$", "TooManyEdges"),
]


def limit_of(t):
    t = M.peel(t, casts=True)
    if t.kind == "call" and re.search(r"convert::Into<.*>>::into$|convert::From<.*>>::from$|::from$", t.a) and t.sub:
        t = M.peel(t.sub[0], casts=True)
    if t.kind == "named":
        return t.a
    return None


ALLOWED_CTX = re.compile(r"^(is:Some\(<.* as std::iter::Iterator>::next\(|false:slice::is_empty\(|ok\(essential_check::|Le\(|true:std::collections::HashSet::insert\()")
BAD_ITER = re.compile(r"Iterator::(take|skip|step_by|filter|take_while|skip_while|rev)\(|split_at|\[\.\.|Range")


def err_variants_on_edge(fn, src, idx):
    cfg = fn.cfg()
    out = []
    for b in cfg.blocks_only_via(("e", src, idx)):
        for st in fn.blocks[b]["stmts"]:
            if st["k"] == "assign" and st["rv"]["k"] == "aggr" and st["rv"].get("agg") == "adt":
                out.append(st["rv"]["variant"])
    return out


def edge_reaches_ok(fn, src, idx):
    """Can a block that assigns `Ok(..)` to the return place be reached from this edge?"""
    t = fn.term(src)
    tgt = t["arms"][idx][1] if idx < len(t["arms"]) else t["otherwise"]
    cfg = fn.cfg()
    blocks = {tgt} | {b for b in cfg.reach_from(tgt) if isinstance(b, int)}
    for b in blocks:
        for st in fn.blocks[b]["stmts"]:
            if st["k"] == "assign" and st["rv"]["k"] == "aggr" and st["rv"].get("agg") == "adt" and st["rv"]["variant"] == "Ok" \
                    and M.Place(st["pl"]).is_local() and M.Place(st["pl"]).local == 0:
                return True
    return False


def edge_returns_without(fn, src, idx, avoid_blocks):
    """Every path from the edge target reaches return without visiting avoid_blocks."""
    t = fn.term(src)
    tgt = t["arms"][idx][1] if idx < len(t["arms"]) else t["otherwise"]
    seen = set()
    st = [tgt]
    while st:
        b = st.pop()
        if b in seen:
            continue
        seen.add(b)
        if b in avoid_blocks:
            return False
        for s in fn.succs(b):
            st.append(s)
    return True


def run(ctx):
    prog = ctx.prog
    ctx.rule("R1", "limit table: constant value, compared quantity, rejecting relation exactly LIMIT < quantity, documented error, unconditional")
    ctx.rule("R2", "call plumbing: validators are guarded by success of their sub-validators with the right arguments; loops cover the whole collection")
    ctx.rule("R3", "one mutation per key per solution: duplicate test on the mutation's key against a set that spans the solution's mutations")
    ctx.rule("R4", "the mutation-computing check tests computed keys against the declared ones before appending")
    # check_signed_contract accepts only contracts whose signature is recoverable: the conditions under which
    # essential-sign treats a signature as well-formed (C19 R2/R3) are part of that validator
    from . import C19
    ctx.rule("R5", "signed contracts: a malformed signature (bytes or recovery id out of range) is an error, verification precedes acceptance and adds no condition beyond recoverability (C19 R2/R3/R6)")
    C19.run(C19._Only(ctx, "R2", "R5"))
    C19.run(C19._Only(ctx, "R3", "R5"))
    C19.acceptance_tables(ctx, prog, "R5")
    fns = [f for f in prog.fns_by_crate["essential_check"] if f.kind != "Const"]
    found = {l[0]: 0 for l in LIMITS}
    for fn in fns:
        pv = prog.prov(fn)
        for bb in range(len(fn.blocks)):
            t = fn.term(bb)
            if t["k"] != "switch" or t["dty"] != "bool" or not fn.cfg().reachable(bb):
                continue
            d = pv.of_operand(t["discr"])
            x = d
            while x.kind == "unop" and x.a == "Not":
                x = x.sub[0]
            if not (x.kind == "binop" and x.a in C.NEG):
                continue
            lims = [limit_of(s) for s in x.sub]
            if not any(l in found for l in lims):
                continue
            lim = [l for l in lims if l in found][0]
            spec = [l for l in LIMITS if l[0] == lim][0]
            _, doc, qre, fre, evar = spec
            found[lim] += 1
            ctx.saw(fn)
            key = "%s@%s" % (lim.split("::")[-1], fn.path)
            where = fn.loc(bb)
            ctx.ob("R1", key + ":function", bool(re.search(fre, fn.path)), where, "comparison against %s located in %s" % (lim, fn.path), fn)
            # edges
            n = len(t["arms"])
            edges = []
            for i in range(n + 1):
                v = t["arms"][i][0] if i < n else None
                edges.append((i, C.atom_of_edge(prog, fn, pv, bb, v, i), err_variants_on_edge(fn, bb, i)))
            rej = [e for e in edges if "Err" in e[2] and not edge_reaches_ok(fn, bb, e[0])]
            acc = [e for e in edges if edge_reaches_ok(fn, bb, e[0])]
            if not (len(rej) == 1 and len(acc) == 1):
                ctx.ob("R1", key + ":shape", False, where, "cannot identify one rejecting and one accepting edge: %s" % [(e[1].text, e[2]) for e in edges], fn)
                continue
            i, atom, evs = rej[0]
            ok_rel = atom.kind == "cmp" and atom.terms[0] == "Lt" and limit_of(atom.terms[1]) == lim
            q = M.render(M.peel(atom.terms[2], casts=True)) if atom.kind == "cmp" else ""
            ctx.ob("R1", key + ":relation", ok_rel, where, "rejecting edge holds when `%s`; documented: reject exactly when quantity > %s" % (atom.text[:200], lim.split("::")[-1]), fn)
            ctx.ob("R1", key + ":quantity", ok_rel and bool(re.search(qre, q)), where, "compared quantity `%s`; documented quantity /%s/" % (q[:200], qre), fn)
            ctx.ob("R1", key + ":error", evar in evs, where, "rejecting edge constructs %s; documented error %s" % (evs, evar), fn)
            ctx.ob("R1", key + ":reject-returns", edge_returns_without(fn, bb, i, {bb}), where, "rejecting edge must reach return without looping back", fn)
            # unconditional
            ctxs = [a.text for a in C.conditions(prog, fn, bb)]
            bad = [a for a in ctxs if not ALLOWED_CTX.match(a) or BAD_ITER.search(a)]
            ctx.ob("R1", key + ":unconditional", not bad, where, "conditions dominating the comparison: %s" % [a[:120] for a in ctxs], fn)
    for (lim, doc, qre, fre, evar) in LIMITS:
        v = prog.const_value(lim)
        ctx.ob("R1", "%s:value" % lim.split("::")[-1], v == doc, lim, "%s = %s, documented %d" % (lim, v, doc))
        ctx.ob("R1", "%s:compared-once" % lim.split("::")[-1], found[lim] == 1, lim, "%d comparison(s) against %s in essential-check (expected exactly 1)" % (found[lim], lim))
    v = prog.const_value("essential_types::contract::Contract::MAX_PREDICATES")
    ctx.ob("R1", "Contract::MAX_PREDICATES=predicate::MAX_PREDICATES", v == prog.const_value("essential_check::predicate::MAX_PREDICATES") == 100,
           "crates/types/src/contract.rs", "Contract::MAX_PREDICATES = %s" % v)
    # emptiness
    f = prog.fn("essential_check::solution::check_solutions")
    if ctx.anchor("R1", "fn check_solutions", f):
        pv = prog.prov(f)
        hits = []
        for bb in range(len(f.blocks)):
            t = f.term(bb)
            if t["k"] == "switch":
                for i in range(len(t["arms"]) + 1):
                    v = t["arms"][i][0] if i < len(t["arms"]) else None
                    a = C.atom_of_edge(prog, f, pv, bb, v, i)
                    if a.text == "true:slice::is_empty(solutions)":
                        hits.append((bb, i, err_variants_on_edge(f, bb, i)))
        ok = len(hits) == 1 and "Empty" in hits[0][2] and "Err" in hits[0][2] and not C.conditions(prog, f, hits[0][0])
        ctx.ob("R1", "empty-set-rejected", ok, f.loc(hits[0][0]) if hits else f.loc(0), "edges where solutions.is_empty(): %s" % hits, f)

    # ---- R2 ---------------------------------------------------------------
    def ok_dominates_ok_return(fname, needed):
        f = prog.fn(fname)
        if not ctx.anchor("R2", "fn " + fname, f):
            return
        ctx.saw(f)
        okb = [bb for bb, b in enumerate(f.blocks) for st in b["stmts"] if st["k"] == "assign" and st["rv"]["k"] == "aggr"
               and st["rv"].get("agg") == "adt" and st["rv"]["variant"] == "Ok" and M.Place(st["pl"]).is_local() and M.Place(st["pl"]).local == 0]
        ctx.ob("R2", fname.split("::")[-1] + ":has-ok-return", len(okb) >= 1, f.loc(0), "Ok return blocks %s" % okb, f)
        for bb in okb:
            atoms = [a.text for a in C.conditions(prog, f, bb)]
            for rx in needed:
                ctx.ob("R2", "%s:guarded-by:%s" % (fname.split("::")[-1], rx), any(re.search(rx, a) for a in atoms), f.loc(bb),
                       "Ok return is dominated by %s" % [a[:140] for a in atoms], f)

    ok_dominates_ok_return("essential_check::solution::check_set",
                           [r"^ok\(essential_check::solution::check_solutions\(\*?set\.solutions\)\)$", r"^ok\(essential_check::solution::check_set_state_mutations\(set\)\)$"])
    ok_dominates_ok_return("essential_check::predicate::check_signed_contract",
                           [r"^ok\(essential_sign::contract::verify\(signed_contract\)\)$", r"^ok\(essential_check::predicate::check_contract\(.*signed_contract\.contract\)\)$"])
    ok_dominates_ok_return("essential_check::predicate::check", [r"^Le\(Vec::len\(\*?predicate\.nodes\)", r"^Le\(Vec::len\(\*?predicate\.edges\)"])
    ok_dominates_ok_return("essential_check::solution::check_solutions", [r"^false:slice::is_empty\(solutions\)$", r"^Le\(slice::len\(solutions\), essential_check::solution::MAX_SOLUTIONS\)$"])
    ok_dominates_ok_return("essential_check::solution::check_set_state_mutations", [r"^Le\(essential_types::solution::SolutionSet::state_mutations_len\(set\), essential_check::solution::MAX_STATE_MUTATIONS\)$"])
    ok_dominates_ok_return("essential_check::predicate::check_contract", [r"^Le\(slice::len\(predicates\), essential_check::predicate::MAX_PREDICATES\)$"])

    def loop_call(fname, callee_rx, arg_rx, label):
        """A `?`-checked call inside a loop body: the err edge returns, the argument is the documented component."""
        f = prog.fn(fname)
        if not f:
            return
        pv = prog.prov(f)
        hits = 0
        for bb in range(len(f.blocks)):
            t = f.term(bb)
            if t["k"] != "switch":
                continue
            for i in range(len(t["arms"]) + 1):
                v = t["arms"][i][0] if i < len(t["arms"]) else None
                a = C.atom_of_edge(prog, f, pv, bb, v, i)
                if a.kind == "variant" and a.terms[0] == "err" and a.terms[1].kind == "call" and re.search(callee_rx, a.terms[1].a):
                    hits += 1
                    arg = M.render(M.peel(a.terms[1].sub[0])) if a.terms[1].sub else ""
                    ctx.ob("R2", "%s:%s:argument" % (fname.split("::")[-1], label), bool(re.search(arg_rx, arg)) and not BAD_ITER.search(arg), f.loc(bb),
                           "argument `%s` must match /%s/ and iterate the whole collection" % (arg[:200], arg_rx), f)
                    ctx.ob("R2", "%s:%s:error-propagates" % (fname.split("::")[-1], label), edge_returns_without(f, bb, i, {bb}), f.loc(bb), "err edge must return", f)
                    ctxs = [x.text for x in C.conditions(prog, f, bb)]
                    bad = [x for x in ctxs if not ALLOWED_CTX.match(x) or BAD_ITER.search(x)]
                    ctx.ob("R2", "%s:%s:unconditional" % (fname.split("::")[-1], label), not bad, f.loc(bb), "dominating conditions %s" % [x[:100] for x in ctxs], f)
        ctx.ob("R2", "%s:%s:present" % (fname.split("::")[-1], label), hits == 1, f.loc(0), "%d checked call(s) of %s" % (hits, callee_rx), f)

    loop_call("essential_check::solution::check_solutions", r"check_value_size$", r"slice::iter\(solutions\).*\.predicate_data\)\) as Some\)\.0$|predicate_data.*as Some\)\.0$", "value-size-of-each-data-slot")
    loop_call("essential_check::solution::check_set_state_mutations", r"check_key_size$", r"\.state_mutations\)\) as Some\)\.0\.key$", "key-size-of-each-mutation")
    loop_call("essential_check::solution::check_set_state_mutations", r"check_value_size$", r"\.state_mutations\)\) as Some\)\.0\.value$", "value-size-of-each-mutation")
    loop_call("essential_check::predicate::check_contract", r"predicate::check$", r"enumerate\(slice::iter\(predicates\)\)\)\) as Some\)\.0\.1$", "each-predicate")

    # ---- R3 ---------------------------------------------------------------
    f = prog.fn("essential_check::solution::check_set_state_mutations")
    if ctx.anchor("R3", "fn check_set_state_mutations", f):
        pv = prog.prov(f)
        hits = []
        for bb in range(len(f.blocks)):
            t = f.term(bb)
            if t["k"] != "switch":
                continue
            for i in range(len(t["arms"]) + 1):
                v = t["arms"][i][0] if i < len(t["arms"]) else None
                a = C.atom_of_edge(prog, f, pv, bb, v, i)
                if a.kind == "bool" and a.terms[1].kind == "call" and a.terms[1].a.endswith("HashSet::insert"):
                    hits.append((bb, i, a))
        rej = [(bb, i, a) for bb, i, a in hits if "MultipleMutationsForSlot" in err_variants_on_edge(f, bb, i)]
        if ctx.ob("R3", "duplicate-test-present", len(rej) == 1, f.loc(rej[0][0]) if rej else f.loc(0), "edges rejecting with MultipleMutationsForSlot: %s" % [a.text[:120] for _, _, a in rej], f):
            bb, i, a = rej[0]
            ctx.ob("R3", "reject-when-insert-false", a.terms[0] is False, f.loc(bb), "rejecting edge is `%s`" % a.text[:160], f)
            arg = M.render(M.peel(a.terms[1].sub[1])) if len(a.terms[1].sub) > 1 else ""
            ctx.ob("R3", "probe-is-mutation-key", bool(re.search(r"\.state_mutations\)\) as Some\)\.0\.key$", arg)), f.loc(bb), "inserted value `%s`" % arg[:200], f)
            # the set is created outside the mutations loop
            setl = M.peel(a.terms[1].sub[0])
            newb = [b2 for b2, t2 in f.calls() if M.callee_of(t2).endswith("HashSet::new")]
            inner_some = [x for x in C.conditions(prog, f, newb[0])] if newb else []
            in_mut_loop = any(re.search(r"\.state_mutations\)\)\)$", x.text) and x.text.startswith("is:Some") for x in inner_some)
            ctx.ob("R3", "set-spans-the-solution's-mutations", len(newb) == 1 and not in_mut_loop and setl.kind == "call" and setl.a.endswith("HashSet::new"), f.loc(newb[0]) if newb else f.loc(0),
                   "HashSet created under %s" % [x.text[:100] for x in inner_some], f)

    # ---- R4 ---------------------------------------------------------------
    f = prog.fn("essential_check::solution::decode_mutations")
    if ctx.anchor("R4", "fn essential_check::solution::decode_mutations", f):
        ctx.saw(f)
        pv = prog.prov(f)
        pushes = [(bb, t) for bb, t in f.calls() if M.callee_of(t) == "std::vec::Vec::push" and "state_mutations" in M.render(pv.of_operand(t["args"][0]))]
        ctx.ob("R4", "append-site-present", len(pushes) >= 1, f.loc(pushes[0][0]) if pushes else f.loc(0), "%d push(es) onto state_mutations" % len(pushes), f)
        for bb, t in pushes:
            atoms = C.conditions(prog, f, bb)
            probes = [a for a in atoms if a.kind == "bool" and a.terms[1].kind == "call" and re.search(r"HashSet::(insert|contains)$", a.terms[1].a)]
            ok = False
            detail = "no duplicate probe dominates the push"
            for a in probes:
                setl = a.terms[1].sub[0]
                # the probed set must be built from (or extended with) the solution's declared state_mutations
                locs = [x for x in setl.walk()]
                txt = M.render(setl)
                seeded = "state_mutations" in txt
                if not seeded:
                    # look for an extend/insert into the same set local from an iteration over state_mutations
                    seeded = set_seeded_from_declared(prog, f, setl)
                # ... and must live across *all* data outputs of the solution: it is created outside the
                # loop over the solution's data outputs (two loop levels above the push: data outputs, mutations)
                root = M.peel(setl, transparent=False)
                made = None
                if root.kind == "call" and root.meta:
                    for b2, t2 in f.calls():
                        if t2 is root.meta:
                            made = b2
                depth_made = len(M.loops_containing(f, made)) if made is not None else None
                depth_push = len(M.loops_containing(f, bb))
                spans = made is not None and depth_made <= depth_push - 2
                # ... and must not leak keys from one solution into the next: it is created inside the per-solution loop
                # (exactly two levels above the push), or it is emptied there
                per_solution = made is not None and depth_made == depth_push - 2
                if spans and not per_solution:
                    outer = sorted(M.loops_containing(f, bb), key=lambda l: -len(l[1]))
                    sol_loop = outer[0][1] if outer else set()
                    per_solution = any(b2 in sol_loop and re.search(r"HashSet::clear$", M.callee_of(t2)) and M.render(M.peel(pv.of_operand(t2["args"][0]))) == txt for b2, t2 in f.calls())
                detail = ("probed set `%s` seeded from declared state_mutations: %s; created outside the data-output loop (lives across all outputs of the solution): %s; "
                          "fresh for every solution (keys are scoped by contract): %s" % (txt[:120], seeded, spans, per_solution))
                ok = ok or (seeded and spans and per_solution)
            ctx.ob("R4", "computed-keys-tested-against-declared", ok, f.loc(bb), detail, f)


def set_seeded_from_declared(prog, f, setl):
    """Is there, in f, an insert/extend/collect into the set's local whose source iterates `.state_mutations`?"""
    pv = prog.prov(f)
    target = setl.meta if setl.kind == "phi" else None
    for bb, t in f.calls():
        c = M.callee_of(t)
        if re.search(r"HashSet::(insert|extend)$|Extend<.*>>::extend$", c) and len(t["args"]) > 1:
            src = M.render(pv.of_operand(t["args"][1]))
            recv = M.render(pv.of_operand(t["args"][0]))
            if "state_mutations" in src and "decode_mutations" not in src and recv == M.render(setl):
                return True
    return False
