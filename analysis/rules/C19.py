"""C19 — contract signatures bind the signer to the contract's content."""
import re

from .. import cond as C
from .. import expect as E
from .. import hashing as H
from .. import mir as M
from .. import panic as P
from . import C12
from .C05 import reachable_fns

META = {
    "explanation": "R1 one digest: sign::contract::{sign, verify, recover} each compute essential_hash::content_addr of the contract they are given and pass its 32 bytes to sign_hash / verify_hash / "
                   "recover_hash; these build the secp256k1 Message with from_digest of exactly that hash and sign / recover with exactly that message; the signature stored is the compact signature plus "
                   "the recovery id of that signing. Order independence of the digest is C17-R1 (re-evaluated here for the contract address). R2 malformed input is an error, never a panic: panic-path "
                   "enumeration (C05 engine) from the public functions of essential-sign and check_signed_contract; the recovery id goes through RecoveryId::try_from(..)? and the signature through "
                   "from_compact(..)?. R3 verification precedes acceptance: check_signed_contract's Ok is dominated by success of verify on the same signed contract. R4 encodings: the words the VM's "
                   "RecoverSecp256k1 consumes / produces are the ones sign::encode produces (C12-R3).",
    "not_decided": "that tampering changes the recovered key (cryptography, trusted); injectivity of the word encodings as a value statement (follows from R4's fixed layout informally).",
    "trusted_base": ["secp256k1", "C17 for the contract address"],
}

S = "essential_sign::"


class _Only:
    """Forward only the obligations of one rule of another property's module, relabelled."""

    def __init__(self, ctx, src, dst):
        self._ctx, self._src, self._dst = ctx, src, dst
        self.prog = ctx.prog
        self.repo = ctx.repo

    def rule(self, *a):
        pass

    def ob(self, rule, key, ok, where="", detail="", fn=None):
        if rule == self._src:
            return self._ctx.ob(self._dst, key, ok, where, detail, fn)
        return ok

    def anchor(self, rule, what, found, where=""):
        if rule == self._src:
            return self._ctx.anchor(self._dst, what, found, where)
        return bool(found)

    def floor(self, *a):
        return True

    def note(self, s):
        pass

    def saw(self, fn):
        self._ctx.saw(fn)


class _OnlyKeys(_Only):
    """Like _Only, restricted to obligations whose key matches a regular expression."""

    def __init__(self, ctx, src, dst, key_rx):
        _Only.__init__(self, ctx, src, dst)
        self._rx = re.compile(key_rx)

    def ob(self, rule, key, ok, where="", detail="", fn=None):
        if rule == self._src and self._rx.search(key):
            return self._ctx.ob(self._dst, key, ok, where, detail, fn)
        return ok

    def anchor(self, rule, what, found, where=""):
        if rule == self._src and self._rx.search(what):
            return self._ctx.anchor(self._dst, what, found, where)
        return bool(found)


def run(ctx):
    prog = ctx.prog
    for r, t in [("R1", "one digest for sign / verify / recover: content_addr of the given contract"), ("R2", "malformed signatures are errors: no reachable unreviewed panic site"),
                 ("R3", "verification precedes acceptance"), ("R4", "word encodings shared with the VM's recovery op"),
                 ("R5", "the signed digest commits to every predicate: the predicate encoding behind each predicate address is total up to the documented limits and laid out as decoded (C17 R3)")]:
        ctx.rule(r, t)
    from .. import hashing as H_
    H_.layout(ctx, "R5")
    ctx.rule("R6", "a signature is accepted exactly when a key can be recovered from it: recover fails only where secp256k1 fails (recovery id, compact parse, recovery) and verify adds no further condition")
    acceptance_tables(ctx, prog, "R6")
    for name, arg, leaf in [("sign", "contract", "sign_hash"), ("verify", "signed.contract", "verify_hash"), ("recover", "signed.contract", "recover_hash")]:
        f = prog.fn(S + "contract::" + name)
        if not ctx.anchor("R1", "fn contract::" + name, f):
            continue
        cs = [(c, a) for _, c, a in E.calls(prog, f)]
        second = ["essential_hash::content_addr(%s).0" % arg, "sk" if name == "sign" else "signed.signature"]
        want = [("essential_hash::content_addr", [arg]), (S + leaf, second)]
        ctx.ob("R1", "contract::%s:digest=content_addr(given contract)" % name, cs == want, "%s:%d" % (f.file, f.line), "calls %s" % cs, f)
        ctx.saw(f)
    f = prog.fn(S + "contract::sign")
    if f:
        ag = [v for _, v in E.aggregates(prog, f, "SignedContract")]
        ctx.ob("R1", "sign:stores-that-contract-and-signature", ag == ["essential_types::contract::SignedContract::SignedContract{contract, essential_sign::sign_hash(essential_hash::content_addr(contract).0, sk)}"],
               "%s:%d" % (f.file, f.line), "builds %s" % ag, f)
    for name, nxt, args in [("sign_hash", "sign_message", ["secp256k1::Message::from_digest(hash)", "sk"]), ("verify_hash", "recover_from_message", ["secp256k1::Message::from_digest(hash)", "signature"]),
                            ("recover_hash", "recover_from_message", ["secp256k1::Message::from_digest(hash)", "signature"])]:
        f = prog.fn(S + name)
        if ctx.anchor("R1", "fn " + name, f):
            cs = [(c, a) for _, c, a in E.calls(prog, f)]
            ctx.ob("R1", name + ":message=from_digest(hash)", cs == [("secp256k1::Message::from_digest", ["hash"]), (S + nxt, args)], "%s:%d" % (f.file, f.line), "calls %s" % cs, f)
            ctx.saw(f)
    f = prog.fn(S + "verify_hash")
    if f:
        tab = M.return_table(prog, f)
        oks = [at for _, v, at in tab if v.startswith("Result::Ok")]
        ctx.ob("R1", "verify_hash:Ok-only-if-recovery-succeeded", oks == [["ok(essential_sign::recover_from_message(secp256k1::Message::from_digest(hash), signature))"]], "%s:%d" % (f.file, f.line), "Ok under %s" % oks, f)
    f = prog.fn(S + "sign_message")
    if ctx.anchor("R1", "fn sign_message", f):
        ctx.saw(f)
        E.has_call(ctx, "R1", "sign_message:signs-the-given-message-with-the-given-key", prog, f, r"sign_ecdsa_recoverable$", ["", "^msg$", "^sk$"])
        ag = [v for _, v in E.aggregates(prog, f, "Signature")]
        ok = len(ag) == 1 and re.match(r"^essential_types::Signature::Signature\{secp256k1::ecdsa::recovery::RecoverableSignature::serialize_compact\(.*sign_ecdsa_recoverable\(.*, msg, sk\)\)\.1, Result::unwrap\(<T as std::convert::TryInto<U>>::try_into\(.*serialize_compact\(.*\)\.0\)\)\)\}$", ag[0]) is not None
        ctx.ob("R1", "sign_message:stores-(compact-signature, its-recovery-id)", ok, "%s:%d" % (f.file, f.line), "builds %s" % [a[:200] for a in ag], f)
    f = prog.fn(S + "recover_from_message")
    if ctx.anchor("R1", "fn recover_from_message", f):
        ctx.saw(f)
        E.has_call(ctx, "R2", "recovery-id-checked", prog, f, r"RecoveryId as std::convert::TryFrom<i32>>::try_from$", [r"^int::from\(signature\.1\)$"])
        E.has_call(ctx, "R2", "signature-bytes-checked", prog, f, r"RecoverableSignature::from_compact$", [r"^signature\.0$", r"RecoveryId as std::convert::TryFrom<i32>>::try_from\(int::from\(signature\.1\)\)\?$"])
        E.has_call(ctx, "R1", "recovers-with-the-given-message", prog, f, r"recover_ecdsa$", ["", "^message$", r"^secp256k1::ecdsa::recovery::RecoverableSignature::from_compact\(signature\.0, .*\)\?$"])
        tab = M.return_table(prog, f)
        errs = [at[-1] for _, v, at in tab if v == "<propagate error>"]
        ctx.ob("R2", "three-error-paths(id, signature, recovery)", len(errs) == 3 and errs[0].startswith("err(<secp256k1::ecdsa::recovery::RecoveryId as") and errs[1].startswith("err(secp256k1::ecdsa::recovery::RecoverableSignature::from_compact(")
               and errs[2].startswith("err(secp256k1::ecdsa::recovery::<impl secp256k1::Secp256k1<C>>::recover_ecdsa("), "%s:%d" % (f.file, f.line), "error paths %s" % [e[:70] for e in errs], f)
    H.sort_before_hash(ctx, "R1", "essential_hash::contract_addr::from_predicate_addrs_slice", salt=True)
    H.delegation(ctx, "R1", only=r"contract_addr|Contract>|^essential_hash::content_addr$")
    # ---- R2 panic engine ---------------------------------------------------
    roots, fns = reachable_fns(ctx, [r"^essential_sign::(sign_hash|sign_message|verify_hash|verify_message|recover_hash|recover_from_message)$", r"^essential_sign::contract::(sign|verify|recover)$",
                                      r"^essential_sign::encode::\w+$", r"^essential_check::predicate::check_signed_contract$"], 12)
    sites, n_auto, n_tab = P.decide_sites(ctx, "R2", prog, fns, label="signing / signature checking")
    ctx.floor("R2", "functions reachable from the signing entry points", len(fns), 25)
    # ---- R3 ---------------------------------------------------------------
    f = prog.fn("essential_check::predicate::check_signed_contract")
    if ctx.anchor("R3", "fn check_signed_contract", f):
        ctx.saw(f)
        tab = M.return_table(prog, f)
        oks = [at for _, v, at in tab if v.startswith("Result::Ok")]
        ok = len(oks) == 1 and "ok(essential_sign::contract::verify(signed_contract))" in oks[0] and any(a.startswith("ok(essential_check::predicate::check_contract(") for a in oks[0])
        ctx.ob("R3", "accept-only-after-verify-and-check_contract", ok, "%s:%d" % (f.file, f.line), "Ok under %s" % oks, f)
    # ---- R4 ---------------------------------------------------------------
    C12.run(_Only(ctx, "R3", "R4"))


def acceptance_tables(ctx, prog, rid):
    rf = prog.fn(S + "recover_from_message")
    RID = r"<secp256k1::ecdsa::recovery::RecoveryId as std::convert::TryFrom<i32>>::try_from\(int::from\(signature\.1\)\)"
    if ctx.anchor(rid, "fn recover_from_message", rf):
        ctx.saw(rf)
        rows = M.return_table(prog, rf)
        kinds = []
        for _, v, at in rows:
            last = at[-1] if at else ""
            if v == "<propagate error>" and re.match(r"^err\(%s\)$" % RID, last):
                kinds.append("bad-recovery-id")
            elif v == "<propagate error>" and re.match(r"^err\(secp256k1::ecdsa::recovery::RecoverableSignature::from_compact\(signature\.0, ", last):
                kinds.append("bad-compact-signature")
            elif v == "<propagate error>" and re.match(r"^err\(secp256k1::ecdsa::recovery::<impl secp256k1::Secp256k1<C>>::recover_ecdsa\(", last):
                kinds.append("unrecoverable")
            elif re.match(r"^Result::Ok\{secp256k1::ecdsa::recovery::<impl secp256k1::Secp256k1<C>>::recover_ecdsa\(.*\)\?\}$", v) and len(at) == 3:
                kinds.append("ok=recovered-key")
            else:
                kinds.append("OTHER:%s under %s" % (v[:50], last[:70]))
        ctx.ob(rid, "recover_from_message:fails-exactly-where-secp256k1-fails", sorted(kinds) == sorted(["bad-recovery-id", "bad-compact-signature", "unrecoverable", "ok=recovered-key"]),
               "%s:%d" % (rf.file, rf.line), "returns: %s" % kinds, rf)
    for name, want in [("verify_hash", None),
                       ("recover_hash", r"^essential_sign::recover_from_message\(secp256k1::Message::from_digest\(hash\), signature\)$"),
                       ("contract::verify", r"^essential_sign::verify_hash\(essential_hash::content_addr\(signed\.contract\)\.0, signed\.signature\)$"),
                       ("contract::recover", r"^essential_sign::recover_hash\(essential_hash::content_addr\(signed\.contract\)\.0, signed\.signature\)$")]:
        f = prog.fn(S + name)
        if not ctx.anchor(rid, "fn " + name, f):
            continue
        ctx.saw(f)
        rows = [(v, at) for _, v, at in M.return_table(prog, f)]
        if want is not None:
            ok = len(rows) == 1 and re.match(want, rows[0][0]) is not None and not rows[0][1]
        else:
            R = "essential_sign::recover_from_message(secp256k1::Message::from_digest(hash), signature)"
            ok = sorted(rows) == sorted([("Result::Ok{tuple{}}", ["ok(%s)" % R]), ("<propagate error>", ["err(%s)" % R])])
        ctx.ob(rid, "%s:adds-no-condition" % name, ok, "%s:%d" % (f.file, f.line), "returns: %s" % [(v[:90], [a[:60] for a in at]) for v, at in rows], f)
    f = prog.fn("essential_check::predicate::check_signed_contract")
    if ctx.anchor(rid, "fn check_signed_contract", f):
        ctx.saw(f)
        rows = sorted((v, at) for _, v, at in M.return_table(prog, f))
        V = "essential_sign::contract::verify(signed_contract)"
        K = "essential_check::predicate::check_contract(signed_contract.contract)"
        want = sorted([("<propagate error>", ["err(%s)" % V]), ("Result::Ok{tuple{}}", ["ok(%s)" % V, "ok(%s)" % K]), ("<propagate error>", ["ok(%s)" % V, "err(%s)" % K])])
        ctx.ob(rid, "check_signed_contract:accepts-iff-verify-and-check_contract-succeed", rows == want, "%s:%d" % (f.file, f.line), "returns: %s" % [(v[:30], [a[:50] for a in at]) for v, at in rows], f)
