"""C09 — control flow, repeat loops and evaluation results follow the specification."""
import re

from .. import cond as C
from .. import mir as M

META = {
    "explanation": "Every rule compares a function's *return table* (value returned on each path together with the normalised conditions that dominate it, read from MIR) with the table the "
                   "specification prescribes. R1 conditions are validated: each operand documented as a condition (JumpIf, HaltIf, PanicIf, Select, SelectRange, Repeat direction) flows into "
                   "bool_from_word, whose table is exactly 0 -> Some(false), 1 -> Some(true), otherwise None, and every branch on it is dominated by its success; no branch tests a raw popped word. "
                   "R2 jump shape: condition false -> fall through; distance 0 -> JumpedToSelf before any pc is produced; negative distance -> checked_sub(pc, |d|), otherwise checked_add(pc, |d|), "
                   "both `?`-checked. R3 evaluation: eval propagates exec's error, then returns bool_from_word(stack.last()) with None/empty -> InvalidEvaluation. R4 control-flow plumbing of Vm::exec: "
                   "Pc(n) assigns pc := n, Halt leaves pc untouched, ComputeEnd and None increment pc by one, ComputeResult assigns the returned pc. R5 repeat bookkeeping tables: RepeatEnd pops the "
                   "slot exactly when counter >= limit-1 (up) / counter <= 1 (down) and otherwise steps the counter by one and returns the stored index; Repeat pushes (pc+1, counter 0 / n).",
    "not_decided": "loop trip counts and counter values over whole executions, resume addresses of nested loops, jump targets as values (numeric, follow from the tables informally).",
}

P2 = "essential_vm::stack::Stack::pop2(stack)?"
BW = "essential_types::convert::bool_from_word"
ABS = "int::try_from(i64::unsigned_abs(%s[0]))" % P2


def table(prog, fn):
    return [(v, at) for _, v, at in M.return_table(prog, fn) if v != "<propagate error>"]


def expect(ctx, rule, key, fn, want, got=None):
    prog = ctx.prog
    got = got if got is not None else table(prog, fn)
    ctx.saw(fn)
    ok = sorted(got) == sorted(want)
    detail = "return table matches the specification" if ok else "return table %s differs from the specified %s" % (
        [g for g in got if g not in want][:3], [w for w in want if w not in got][:3])
    ctx.ob(rule, key, ok, "%s:%d" % (fn.file, fn.line), detail[:1200], fn)


def run(ctx):
    prog = ctx.prog
    for r, t in [("R1", "conditions are validated through bool_from_word (0/1 only); no branch on a raw word"), ("R2", "jump shape"), ("R3", "evaluation result"),
                 ("R4", "control-flow plumbing of Vm::exec"), ("R5", "repeat bookkeeping tables")]:
        ctx.rule(r, t)
    # nesting up to the repeat-stack limit: a loop is opened exactly while fewer than SIZE_LIMIT loops are open (C05 RB, repeat container)
    # execution ends when the pc leaves the program: the op accessors of both program forms answer None for every index
    # at or past the number of ops (C14 R4)
    if not getattr(ctx, "_src", None):
        from . import C14
        from .C19 import _Only
        ctx.rule("R7", "the op accessors end execution for any pc at or past the last op, for the op list and the mapped bytecode alike (C14 R4)")
        C14.run(_Only(ctx, "R4", "R7"))
    from .. import bounded as B_
    ctx.rule("R6", "a Repeat is accepted exactly while the repeat stack holds fewer than its limit of slots (writers of Repeat.stack, C05 RB)")
    for (label, adt, field, limit, doc) in B_.CONTAINERS:
        if label == "repeat":
            B_.check_container(ctx, "R6", prog, label, adt, field, limit, doc)
    f = prog.fn(BW)
    if ctx.anchor("R1", "fn bool_from_word", f):
        expect(ctx, "R1", "bool_from_word:0->false,1->true,else None", f,
               [("Option::None{}", ["ne:word∉{0,1}"]), ("Option::Some{1}", ["eq:word=1"]), ("Option::Some{0}", ["eq:word=0"])])
    # users of conditions: every bool switch on popped data goes through bool_from_word?
    users = {
        "essential_vm::total_control_flow::jump_if": BW + "(%s[1])" % P2,
        "essential_vm::total_control_flow::halt_if": BW + "(essential_vm::stack::Stack::pop(stack)?)",
        "essential_vm::total_control_flow::panic_if": BW + "(essential_vm::stack::Stack::pop(stack)?)",
        "essential_vm::repeat::repeat": BW + "(%s[1])" % P2,
        "essential_vm::stack::Stack::select_range": BW + "(essential_vm::stack::Stack::pop(self)?)",
        "essential_vm::stack::Stack::select::{closure#0}::{closure#0}": BW + "(<env>._ref__cond_w)",
    }
    for name, call in users.items():
        g = prog.fn(name)
        if not ctx.anchor("R1", "fn " + name.split("::", 2)[-1], g):
            continue
        ctx.saw(g)
        pv = prog.prov(g)
        raw = []
        uses = 0
        for bb in range(len(g.blocks)):
            t = g.term(bb)
            if t["k"] != "switch" or not g.cfg().reachable(bb) or g.blocks[bb]["cleanup"]:
                continue
            d = pv.of_operand(t["discr"])
            r = M.render(d)
            if t["dty"] == "bool" and r == call + "?":
                uses += 1
                at = [a.text for a in C.conditions(prog, g, bb)]
                ctx.ob("R1", "%s:branch-dominated-by-validation" % name.split("::")[-1 if "closure" not in name else 2], "ok(%s)" % call in at, g.loc(bb), "branch on the condition under %s" % at[-2:], g)
            elif t["dty"] == "i64" and ("pop" in r or "cond" in r):
                raw.append((g.loc(bb), r))
            elif t["dty"] == "bool" and re.match(r"^(Ne|Eq)\((0|1), .*(pop|cond)", r):
                raw.append((g.loc(bb), r))
        short = name.split("::")[-1] if "closure" not in name else "select"
        ctx.ob("R1", "%s:condition-goes-through-bool_from_word" % short, uses >= 1 and not raw, "%s:%d" % (g.file, g.line), "validated branches: %d; raw tests of a popped word: %s" % (uses, raw), g)
    sel = prog.fn("essential_vm::stack::Stack::select::{closure#0}::{closure#0}")
    if sel:
        expect(ctx, "R1", "select:cond=1 keeps the top word", sel, [("Result::Ok{phi(w0 | w1)}", ["ok(%s(<env>._ref__cond_w))" % BW])])
        # which arm yields w1
        pv = prog.prov(sel)
        arms = {}
        for bb, b in enumerate(sel.blocks):
            for st in b["stmts"]:
                if st["k"] == "assign" and st["rv"]["k"] == "use":
                    r = M.render(pv.of_operand(st["rv"]["a"]))
                    if r in ("w0", "w1"):
                        at = [a.text for a in C.conditions(prog, sel, bb)]
                        if at and at[-1].startswith(("true:", "false:")):
                            arms[r] = at[-1].split(":")[0]
        ctx.ob("R1", "select:polarity", arms == {"w1": "true", "w0": "false"}, sel.loc(0), "w1 (top) kept when the condition is %s, w0 when %s" % (arms.get("w1"), arms.get("w0")), sel)

    # ---- R2 ---------------------------------------------------------------
    j = prog.fn("essential_vm::total_control_flow::jump_if")
    if ctx.anchor("R2", "fn jump_if", j):
        base = ["ok(essential_vm::stack::Stack::pop2(stack))", "ok(%s(%s[1]))" % (BW, P2)]
        taken = base + ["true:%s(%s[1])?" % (BW, P2), "ok(%s)" % ABS]
        PC = "essential_vm::total_control_flow::ProgramControlFlow::Pc"
        want = [
            ("Result::Err{<T as std::convert::Into<U>>::into(essential_vm::error::TotalControlFlowError::JumpedToSelf{})}", taken + ["Eq(0, %s?)" % ABS]),
            ("Result::Ok{Option::Some{%s{usize::checked_sub(pc, %s?)?}}}" % (PC, ABS), taken + ["Ne(0, %s?)" % ABS, "Lt(%s[0], 0)" % P2, "ok(usize::checked_sub(pc, %s?))" % ABS]),
            ("Result::Ok{Option::Some{%s{usize::checked_add(pc, %s?)?}}}" % (PC, ABS), taken + ["Ne(0, %s?)" % ABS, "Le(0, %s[0])" % P2, "ok(usize::checked_add(pc, %s?))" % ABS]),
            ("Result::Ok{Option::None{}}", base + ["false:%s(%s[1])?" % (BW, P2)]),
        ]
        expect(ctx, "R2", "jump_if:table", j, want)
    h = prog.fn("essential_vm::total_control_flow::halt_if")
    if ctx.anchor("R2", "fn halt_if", h):
        P1 = "essential_vm::stack::Stack::pop(stack)?"
        base = ["ok(essential_vm::stack::Stack::pop(stack))", "ok(%s(%s))" % (BW, P1)]
        expect(ctx, "R2", "halt_if:table", h, [
            ("Result::Ok{Option::Some{essential_vm::total_control_flow::ProgramControlFlow::Halt{}}}", base + ["true:%s(%s)?" % (BW, P1)]),
            ("Result::Ok{Option::None{}}", base + ["false:%s(%s)?" % (BW, P1)])])
    p = prog.fn("essential_vm::total_control_flow::panic_if")
    if ctx.anchor("R2", "fn panic_if", p):
        P1 = "essential_vm::stack::Stack::pop(stack)?"
        base = ["ok(essential_vm::stack::Stack::pop(stack))", "ok(%s(%s))" % (BW, P1)]
        expect(ctx, "R2", "panic_if:table", p, [
            ("Result::Err{<T as std::convert::Into<U>>::into(essential_vm::error::TotalControlFlowError::Panic{std::iter::Iterator::collect(std::iter::Iterator::copied(slice::iter(stack)))})}", base + ["true:%s(%s)?" % (BW, P1)]),
            ("Result::Ok{tuple{}}", base + ["false:%s(%s)?" % (BW, P1)])])
    # ---- R3 ---------------------------------------------------------------
    e = prog.fn("essential_vm::vm::Vm::eval")
    if ctx.anchor("R3", "fn Vm::eval", e):
        EX = "essential_vm::vm::Vm::exec(self, access, state, op_access, op_gas_cost, gas_limit)"
        expect(ctx, "R3", "eval:table", e, [
            ("Result::Err{essential_vm::error::EvalError::InvalidEvaluation{<essential_vm::stack::Stack as std::clone::Clone>::clone(self.stack)}}", ["ok(%s)" % EX, "is:None(slice::last(self.stack))"]),
            ("Option::ok_or_else(%s((slice::last(self.stack) as Some).0), {closure#0})" % BW, ["ok(%s)" % EX, "is:Some(slice::last(self.stack))"])])
        prop = [at for _, v, at in M.return_table(prog, e) if v == "<propagate error>"]
        ctx.ob("R3", "eval:exec-error-propagates", prop == [["err(%s)" % EX]], "%s:%d" % (e.file, e.line), "error propagation under %s" % prop, e)
        for c in prog.closures_of(e):
            ags = [st["rv"]["variant"] for b in c.blocks for st in b["stmts"] if st["k"] == "assign" and st["rv"]["k"] == "aggr" and st["rv"].get("agg") == "adt"]
            ctx.ob("R3", "eval:non-boolean-top->InvalidEvaluation", ags == ["InvalidEvaluation"], c.loc(0), "closure builds %s" % ags, c)
    for wname, target in [("eval_ops", "eval"), ("exec_ops", "exec"), ("exec_bytecode", "exec")]:
        w = prog.fn("essential_vm::vm::Vm::" + wname)
        if ctx.anchor("R3", "fn Vm::" + wname, w):
            ctx.saw(w)
            cs = [M.callee_of(t) for _, t in w.calls()]
            ctx.ob("R3", "%s=forwarding-wrapper" % wname, cs == ["essential_vm::vm::Vm::" + target] and not [b for b in range(len(w.blocks)) if w.term(b)["k"] == "switch"],
                   "%s:%d" % (w.file, w.line), "calls %s" % cs, w)
    # ---- R4 ---------------------------------------------------------------
    x = prog.fn("essential_vm::vm::Vm::exec")
    if ctx.anchor("R4", "fn Vm::exec", x):
        ctx.saw(x)
        pv = prog.prov(x)
        got = {}
        for bb, b in enumerate(x.blocks):
            if b["cleanup"]:
                continue
            for st in b["stmts"]:
                if st["k"] != "assign":
                    continue
                pl = M.Place(st["pl"])
                tgt = M.peel(pv.of_place(pl)) if pl.proj else None
                if tgt is not None and tgt.kind == "field" and tgt.a == "pc" and M.peel(tgt.sub[0]).kind == "param":
                    at = [a.text for a in C.conditions(prog, x, bb)]
                    var = [re.match(r"^is:(\w+)\(", a).group(1) for a in at if re.match(r"^is:(Pc|Halt|ComputeEnd|ComputeResult|None)\(", a)]
                    val = M.render(pv.of_rvalue(st["rv"]))
                    val = re.sub(r"essential_vm::sync::step_op\(.*?gas_limit\)", "STEP", val)
                    got.setdefault(var[-1] if var else "?", []).append(val)
        want = {"Pc": ["(((STEP as Ok).0 as Some).0 as Pc).0"], "ComputeEnd": ["AddWithOverflow(self.pc, 1).0"], "None": ["AddWithOverflow(self.pc, 1).0"],
                "ComputeResult": ["(((STEP as Ok).0 as Some).0 as ComputeResult).0.0"]}
        ctx.ob("R4", "pc-plumbing", got == want, "%s:%d" % (x.file, x.line), "pc assignments per control-flow variant: %s; specified %s" % (got, want), x)
        # Halt and ComputeEnd leave the loop: after these arms no further op is fetched
        fetch = [bb for bb, t in x.calls() if M.callee_decl(t) == "essential_vm::op_access::OpAccess::op_access"]
        leave = {}
        for bb in range(len(x.blocks)):
            if x.blocks[bb]["cleanup"] or not x.cfg().reachable(bb):
                continue
            at = [a.text for a in C.conditions(prog, x, bb)]
            for v in ("Halt", "ComputeEnd", "Pc", "None"):
                if at and re.match(r"^is:%s\(" % v, at[-1]) and "essential_vm::sync::step_op(" in at[-1]:
                    leave.setdefault(v, []).append(any(x.cfg().reaches(bb, fb) for fb in fetch))
        ok = leave.get("Halt") and not any(leave["Halt"]) and leave.get("ComputeEnd") and not any(leave["ComputeEnd"]) and all(leave.get("Pc", [False])) and all(leave.get("None", [False]))
        ctx.ob("R4", "Halt/ComputeEnd-leave-the-loop;Pc/None-continue", bool(ok), "%s:%d" % (x.file, x.line), "can another op be fetched after the arm: %s" % leave, x)
        rets = [(v, at[-1] if at else "") for v, at in table(prog, x) if v.startswith("Result::Ok")]
        ctx.ob("R4", "returns-the-gas-total", len(rets) == 1 and re.match(r"^Result::Ok\{var:\w+\}$", rets[0][0]) is not None, "%s:%d" % (x.file, x.line), "Ok returns %s" % rets, x)
    # ---- R5 ---------------------------------------------------------------
    rp = prog.fn("essential_vm::repeat::Repeat::repeat")
    if ctx.anchor("R5", "fn Repeat::repeat", rp):
        L = "slice::last_mut(self.stack)?"
        base = ["ok(slice::last_mut(self.stack))"]
        expect(ctx, "R5", "RepeatEnd:table", rp, [
            ("Result::Ok{Option::None{}}", base + ["is:Up(%s.limit)" % L, "Le(i64::saturating_sub((%s.limit as Up).0, 1), %s.counter)" % (L, L)]),
            ("Result::Ok{Option::Some{%s.repeat_index}}" % L, base + ["is:Up(%s.limit)" % L, "Lt(%s.counter, i64::saturating_sub((%s.limit as Up).0, 1))" % (L, L)]),
            ("Result::Ok{Option::None{}}", base + ["is:Down(%s.limit)" % L, "Le(%s.counter, 1)" % L]),
            ("Result::Ok{Option::Some{%s.repeat_index}}" % L, base + ["is:Down(%s.limit)" % L, "Lt(1, %s.counter)" % L])])
        pv = prog.prov(rp)
        steps = {}
        pops = {}
        for bb, b in enumerate(rp.blocks):
            if b["cleanup"]:
                continue
            at = [a.text for a in C.conditions(prog, rp, bb)]
            dirn = "Up" if any(a.startswith("is:Up(") for a in at) else ("Down" if any(a.startswith("is:Down(") for a in at) else None)
            for st in b["stmts"]:
                if st["k"] == "assign" and M.Place(st["pl"]).proj:
                    tgt = M.peel(pv.of_place(M.Place(st["pl"])))
                    if tgt.kind == "field" and tgt.a == "counter":
                        steps[dirn] = (M.render(pv.of_rvalue(st["rv"])), at[-1])
            t = b["term"]
            if t["k"] == "call" and M.callee_of(t) == "std::vec::Vec::pop":
                pops[dirn] = at[-1]
        ctx.ob("R5", "counter-steps", steps == {"Up": ("AddWithOverflow(%s.counter, 1).0" % L, "Lt(%s.counter, i64::saturating_sub((%s.limit as Up).0, 1))" % (L, L)),
                                                "Down": ("SubWithOverflow(%s.counter, 1).0" % L, "Lt(1, %s.counter)" % L)}, "%s:%d" % (rp.file, rp.line), "counter updates %s" % steps, rp)
        ctx.ob("R5", "slot-popped-exactly-when-done", pops == {"Up": "Le(i64::saturating_sub((%s.limit as Up).0, 1), %s.counter)" % (L, L), "Down": "Le(%s.counter, 1)" % L},
               "%s:%d" % (rp.file, rp.line), "slot pops under %s" % pops, rp)
    r0 = prog.fn("essential_vm::repeat::repeat")
    if ctx.anchor("R5", "fn repeat::repeat", r0):
        ctx.saw(r0)
        pv = prog.prov(r0)
        calls = {}
        for bb, t in r0.calls():
            c = M.callee_of(t)
            if c.startswith("essential_vm::repeat::Repeat::repeat_"):
                at = [a.text for a in C.conditions(prog, r0, bb)]
                calls[c.split("::")[-1]] = ([M.render(pv.of_operand(a)) for a in t["args"]], at[-1])
        want = {"repeat_to": (["repeat", "usize::checked_add(pc, 1)?", P2 + "[0]"], "true:%s(%s[1])?" % (BW, P2)),
                "repeat_from": (["repeat", "usize::checked_add(pc, 1)?", P2 + "[0]"], "false:%s(%s[1])?" % (BW, P2))}
        ctx.ob("R5", "Repeat:direction-and-arguments", calls == want, "%s:%d" % (r0.file, r0.line), "calls %s" % calls, r0)
    for name, counter, limit in [("repeat_to", "0", "essential_vm::repeat::Direction::Up{limit}"), ("repeat_from", "amount", "essential_vm::repeat::Direction::Down{}")]:
        g = prog.fn("essential_vm::repeat::Repeat::" + name)
        if ctx.anchor("R5", "fn Repeat::" + name, g):
            ctx.saw(g)
            pv = prog.prov(g)
            slots = [M.render(pv.of_rvalue(st["rv"])) for b in g.blocks for st in b["stmts"] if st["k"] == "assign" and st["rv"]["k"] == "aggr" and st["rv"].get("variant") == "Slot"]
            ctx.ob("R5", "%s:slot" % name, slots == ["essential_vm::repeat::Slot::Slot{%s, %s, location}" % (counter, limit)], "%s:%d" % (g.file, g.line), "pushes %s" % slots, g)
    rc = prog.fn("essential_vm::repeat::Repeat::counter")
    if ctx.anchor("R5", "fn Repeat::counter", rc):
        ctx.saw(rc)
        r = M.render(prog.prov(rc).of_local(0))
        ctx.ob("R5", "RepeatCounter=counter-of-innermost-slot", r.startswith("Option::ok_or(Option::map(slice::last(self.stack), {closure#0}), essential_vm::error::RepeatError::NoCounter{})"), "%s:%d" % (rc.file, rc.line), "returns %s" % r[:160], rc)
