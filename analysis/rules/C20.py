"""C20 — the lock serialises closures (mutual exclusion relative to std::sync::Mutex)."""
import re
from .. import mir as M

META = {
    "all_features": True,
    "explanation": "Proof-style obligation groups O1-O4 over the two bodies of crate essential_lock: the Mutex field is private "
                   "and touched only by `new`/`apply`; no API hands out the guard or a reference derived from it; in `apply` every "
                   "invocation of the caller's closure is dominated by Mutex::lock on that field and its success, receives "
                   "DerefMut::deref_mut of that guard, the guard is dropped on both the return and the unwind edge of the closure call "
                   "and on no path before it, and nothing but the closure runs while the guard is held. Mutual exclusion, visibility "
                   "of earlier closures' effects and absence of lost updates then follow from std::sync::Mutex's contract.",
    "not_decided": "fairness/starvation and the behaviour of std::sync::Mutex itself (trusted).",
    "trusted_base": ["std::sync::Mutex provides mutual exclusion and happens-before between unlock and lock"],
}

LOCK = "essential_lock::StdLock"


def run(ctx):
    prog = ctx.prog
    ctx.rule("O1", "the only field of StdLock is a private std::sync::Mutex<T>; only `new` and `apply` touch it; no fn returns a guard/reference; no unsafe, no hand-written Send/Sync")
    ctx.rule("O2", "every call of the caller's closure in `apply` is dominated by Mutex::lock(&self.data) and its unwrap, and receives deref_mut of that guard")
    ctx.rule("O3", "the guard is dropped on the return edge and on the unwind edge of the closure call, on no path before it, and is never moved or leaked")
    ctx.rule("O4", "`apply` calls nothing but lock / unwrap / deref_mut / the closure, takes the lock once, and returns the closure's value")
    adt = prog.adts.get(LOCK)
    if not ctx.anchor("O1", "struct essential_lock::StdLock", adt):
        return
    fields = adt["variants"][0]["fields"]
    ctx.ob("O1", "single-mutex-field", len(fields) == 1 and fields[0]["ty"].startswith("std::sync::Mutex<"),
           "crates/lock/src/lib.rs:%d" % adt["span"]["line"], "fields: %s" % [(f["name"], f["ty"]) for f in fields])
    ctx.ob("O1", "field-private", all(f["vis"].startswith("Restricted") for f in fields),
           "crates/lock/src/lib.rs:%d" % adt["span"]["line"], "visibility: %s" % [f["vis"] for f in fields])
    data = prog.crates["essential_lock"]
    ctx.ob("O1", "crate-denies-unsafe", data["unsafe_code_level"] in ("Deny", "Forbid"), "crates/lock/src/lib.rs",
           "unsafe_code lint level at crate root: %s" % data["unsafe_code_level"])
    lock_fns = prog.fns_by_crate["essential_lock"]
    for fn in lock_fns:
        ctx.saw(fn)
        ctx.ob("O1", "no-unsafe:" + fn.path, not fn.j["unsafe_blocks"] and not fn.j.get("unsafe_fn") and fn.j["unsafe_code_level"] in ("Deny", "Forbid"),
               "%s:%d" % (fn.file, fn.line), "unsafe blocks: %d, level %s" % (len(fn.j["unsafe_blocks"]), fn.j["unsafe_code_level"]), fn)
    for i in data["impls"]:
        td = i.get("trait_def", "")
        bad = i.get("unsafe_impl") or re.search(r"marker::(Send|Sync)$", td) or re.search(r"ops::(Deref|DerefMut|Index|IndexMut)|convert::(AsRef|AsMut)|borrow::Borrow", td)
        ctx.ob("O1", "impl:" + (td or "inherent") + " for " + i["self"], not bad, "crates/lock/src/lib.rs:%d" % i["span"]["line"],
               "impl %s for %s" % (td or "(inherent)", i["self"]))
    # who touches the field / constructs the struct
    touchers = set()
    for fn in prog.fns.values():
        for b in fn.blocks:
            for st in b["stmts"]:
                if st["k"] != "assign":
                    continue
                txt = [st["pl"]]
                rv = st["rv"]
                if rv["k"] == "aggr" and rv["agg"] == "adt" and M.strip_generics(rv["adt"]) == LOCK:
                    touchers.add(fn.path)
                for pl in _places_of_stmt(st):
                    for p in pl["p"]:
                        if p["k"] == "field" and p.get("of") == LOCK:
                            touchers.add(fn.path)
            for pl in _places_of_term(b["term"]):
                for p in pl["p"]:
                    if p["k"] == "field" and p.get("of") == LOCK:
                        touchers.add(fn.path)
    allowed = {LOCK + "::new", LOCK + "::apply"}
    ctx.ob("O1", "field-writers", touchers <= allowed and LOCK + "::apply" in touchers, "crates/lock/src/lib.rs",
           "functions touching StdLock.data or constructing StdLock: %s" % sorted(touchers))
    for fn in lock_fns:
        if fn.kind == "Closure":
            continue
        out = fn.j.get("output", "")
        leak = re.search(r"MutexGuard|sync::Mutex<|LockResult", out) or (out.startswith("&") and fn.path != LOCK + "::new")
        ctx.ob("O1", "return-type:" + fn.path, not leak, "%s:%d" % (fn.file, fn.line), "returns `%s`" % out, fn)
    ctx.floor("O1", "functions of crate essential_lock analysed", len(lock_fns), 2)

    apply = prog.fn(LOCK + "::apply")
    if not ctx.anchor("O2", "fn StdLock::apply", apply):
        return
    pv = prog.prov(apply)
    # closure parameter = the parameter that is not self
    closure_calls = []
    lock_calls = []
    other_calls = []
    ALLOWED = re.compile(r"^(std::sync::Mutex::lock|std::result::Result::(expect|unwrap)|"
                         r"<std::sync::MutexGuard<.*> as std::ops::DerefMut>::deref_mut|std::ops::DerefMut::deref_mut)$")
    for bb, t in apply.calls():
        c = M.callee_of(t)
        if t.get("trait", "").startswith("std::ops::Fn") or re.search(r"ops::(FnOnce|FnMut|Fn)", c):
            closure_calls.append((bb, t))
        elif c == "std::sync::Mutex::lock":
            lock_calls.append((bb, t))
        elif not ALLOWED.match(c):
            other_calls.append((bb, t, c))
    ctx.ob("O4", "single-lock-acquisition", len(lock_calls) == 1, apply.loc(lock_calls[0][0]) if lock_calls else apply.loc(0),
           "%d call(s) of Mutex::lock in apply" % len(lock_calls), apply)
    ctx.ob("O4", "no-foreign-calls-under-guard", not other_calls, apply.loc(other_calls[0][0]) if other_calls else "%s:%d" % (apply.file, apply.line),
           "calls other than lock/unwrap/deref_mut/closure: %s" % [c for _, _, c in other_calls], apply)
    if not ctx.anchor("O2", "a call of the caller's closure in apply", closure_calls):
        return
    cfg = apply.cfg()
    guard_locals = [i for i, l in enumerate(apply.locals) if l["ty"].startswith("std::sync::MutexGuard<")]
    ctx.ob("O3", "one-guard-local", len(guard_locals) == 1, "%s:%d" % (apply.file, apply.line), "guard locals: %s" % guard_locals, apply)
    drops = [b for b in M.blocks_with_term(apply, "drop") if M.Place(apply.term(b)["pl"]).is_local() and M.Place(apply.term(b)["pl"]).local in guard_locals]
    for n, (bb, t) in enumerate(closure_calls):
        key = "closure-call#%d" % n
        where = apply.loc(bb)
        a0 = M.peel(pv.of_operand(t["args"][0]))
        ctx.ob("O2", key + ":callee-is-parameter", a0.kind == "param" and a0.a != "self", where, "callee value: %r" % a0, apply)
        # argument chain
        tup = pv.of_operand(t["args"][1]) if len(t["args"]) > 1 else None
        chain_ok = False
        detail = "argument: %r" % tup
        if tup is not None and tup.kind == "aggr" and len(tup.sub) == 1:
            x = M.peel(tup.sub[0], transparent=False)
            if x.kind == "call" and x.a.endswith("DerefMut>::deref_mut") or (x.kind == "call" and x.a.endswith("DerefMut::deref_mut")):
                g = M.peel(x.sub[0], transparent=False)
                if g.kind == "call" and re.match(r"std::result::Result::(expect|unwrap)$", g.a):
                    l = M.peel(g.sub[0], transparent=False)
                    if l.kind == "call" and l.a == "std::sync::Mutex::lock":
                        f = M.peel(l.sub[0], transparent=False)
                        chain_ok = f.kind == "field" and f.a == "data" and M.peel(f.sub[0]).kind == "param"
        ctx.ob("O2", key + ":argument-is-deref_mut-of-guard-of-self.data", chain_ok, where, detail, apply)
        # dominance
        dom = cfg.dominators(bb)
        lock_dom = [lb for lb, _ in lock_calls if apply.term(lb).get("target") in dom or lb in dom]
        ctx.ob("O2", key + ":dominated-by-lock", bool(lock_dom), where, "lock call blocks dominating: %s" % lock_dom, apply)
        unwraps = [b for b, tt in apply.calls() if re.match(r"std::result::Result::(expect|unwrap)$", M.callee_of(tt)) and b in dom]
        ctx.ob("O2", key + ":dominated-by-unwrap-of-lock-result", bool(unwraps), where, "unwrap blocks dominating: %s" % unwraps, apply)
        # O3: drops after, on both edges
        rets = M.blocks_with_term(apply, "return")
        resumes = M.blocks_with_term(apply, "resume") + M.blocks_with_term(apply, "terminate")
        ok_ret, path = M.must_pass_through(apply, t["target"], rets, drops, unwind=False) if t.get("target") is not None else (False, None)
        ctx.ob("O3", key + ":guard-dropped-on-return-edge", ok_ret, where, "path to return without dropping the guard: %s" % path, apply)
        uw = t.get("unwind")
        if isinstance(uw, int):
            ok_uw, path = M.must_pass_through(apply, uw, resumes, drops, unwind=True)
        else:
            ok_uw, path = (uw == "terminate"), None
        ctx.ob("O3", key + ":guard-dropped-on-unwind-edge", ok_uw, where, "unwind path without dropping the guard: %s" % path, apply)
        early = [d for d in drops if cfg.reaches(d, bb)]
        ctx.ob("O3", key + ":no-drop-before-call", not early, where, "guard drops that can precede the closure call: %s" % early, apply)
        # return value is the closure's
        dest = M.Place(t["dest"])
        ctx.ob("O4", key + ":returns-closure-value", dest.is_local() and (dest.local == 0 or _flows_to_ret(apply, dest.local)), where,
               "closure result stored to %r" % dest, apply)
    # guard never moved out
    moved = []
    for bb, b in enumerate(apply.blocks):
        ops = []
        for st in b["stmts"]:
            if st["k"] == "assign":
                ops += M.rvalue_operands(st["rv"])
        if b["term"]["k"] == "call":
            ops += b["term"]["args"]
        for op in ops:
            pl = M.op_place(op)
            if pl is not None and pl.is_local() and pl.local in guard_locals and op["k"] == "move":
                moved.append(apply.loc(bb))
    ctx.ob("O3", "guard-never-moved", not moved, moved[0] if moved else "%s:%d" % (apply.file, apply.line), "moves of the guard: %s" % moved, apply)


def _flows_to_ret(fn, l):
    for b in fn.blocks:
        for st in b["stmts"]:
            if st["k"] == "assign" and M.Place(st["pl"]).is_local() and M.Place(st["pl"]).local == 0:
                for op in M.rvalue_operands(st["rv"]):
                    pl = M.op_place(op)
                    if pl is not None and pl.local == l:
                        return True
    return False


def _places_of_stmt(st):
    out = [st["pl"]]
    rv = st["rv"]
    if "pl" in rv:
        out.append(rv["pl"])
    for op in M.rvalue_operands(rv):
        if op.get("k") in ("copy", "move"):
            out.append(op["pl"])
    return out


def _places_of_term(t):
    out = []
    for k in ("pl", "dest"):
        if k in t:
            out.append(t[k])
    for op in t.get("args", []) + t.get("ops", []):
        if op.get("k") in ("copy", "move"):
            out.append(op["pl"])
    if "discr" in t and t["discr"].get("k") in ("copy", "move"):
        out.append(t["discr"]["pl"])
    return out
