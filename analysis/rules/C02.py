"""C02 — validation is deterministic under any thread schedule and pool size."""
import re

from .. import determinism as D
from .. import mir as M

META = {
    "all_features": True,
    "explanation": "In safe Rust (R0: every crate denies/forbids unsafe_code and has no unsafe block or hand-written unsafe impl) a computation whose parallelism comes only from rayon's parallel "
                   "iterators with Fn + Sync closures is a function of its inputs unless it uses one of an enumerable list of nondeterminism sources. The rules enumerate every such source in "
                   "essential-vm and essential-check: R1 every rayon consumer is listed with its resolved output type and must be order-preserving (collect/partition/unzip into Vec/BTreeMap/BTreeSet, "
                   "integer sums); collecting into Result/Option, try_*, find_any, any/all, for_each are flagged. R2 no iteration over HashMap/HashSet. R3 shared-state inventory: no Mutex/RwLock/"
                   "atomics/cells/channels/thread-locals/static mut; the only OnceLock is LazyCache's and its initialiser captures only the solutions shared by all VMs of one check. R4 no ambient inputs "
                   "(time, env, thread identity, pool size, randomness, I/O, pointer addresses). R5 the per-solution caches are taken out before and written back after the parallel section; the "
                   "parallel closure does not capture the shared cache map.",
    "not_decided": "equality with a sequential reference evaluation as a behavioural statement (that is C01's behavioural part); determinism of caller-supplied StateRead / GetPredicate / GetProgram / OpGasCost.",
    "trusted_base": ["rayon's ordering contract for collect / partition / unzip into ordered containers", "Rust's Send/Sync checking"],
}


def run(ctx):
    prog = ctx.prog
    ctx.rule("R0", "no unsafe code: crate-level deny/forbid, no unsafe blocks, no hand-written unsafe impls")
    ctx.rule("R1", "every rayon consumer in essential-vm / essential-check is order-preserving")
    ctx.rule("R2", "no iteration over HashMap / HashSet")
    ctx.rule("R3", "shared-state inventory: only immutable Arc payloads and LazyCache's OnceLock with a schedule-independent initialiser")
    ctx.rule("R4", "no ambient inputs")
    ctx.rule("R5", "the shared cache map is only touched outside the parallel section")
    D.check_unsafe(ctx, "R0")
    n = D.check_consumers(ctx, "R1")
    ctx.floor("R1", "rayon consumers in essential-vm / essential-check", n, 3)
    ns = D.check_par_sites(ctx, "R1")
    ctx.floor("R1", "functions that drive a parallel iterator", ns, 3)
    D.check_once_initialisers(ctx, "R3")
    D.check_unordered_iteration(ctx, "R2")
    D.check_shared_state(ctx, "R3")
    D.check_ambient(ctx, "R4")
    # R5
    f = prog.fn("essential_check::solution::check_set_predicates")
    if ctx.anchor("R5", "fn check_set_predicates", f):
        ctx.saw(f)
        pv = prog.prov(f)
        par_maps = [(bb, t) for bb, t in f.calls() if M.callee_decl(t) == "rayon::iter::ParallelIterator::map"]
        if ctx.ob("R5", "one-parallel-map", len(par_maps) == 1, f.loc(0), "%d parallel map(s)" % len(par_maps), f):
            bb, t = par_maps[0]
            clo = pv.of_operand(t["args"][1])
            caps = [M.render(M.peel(x)) for x in clo.sub] if clo.kind == "aggr" else ["?"]
            ctx.ob("R5", "parallel-closure-does-not-capture-the-cache-map", not any(re.search(r"\bcache\b", c) for c in caps), f.loc(bb), "captures: %s" % caps, f)
            src = M.render(pv.of_operand(t["args"][0]))
            ctx.ob("R5", "per-solution-caches-travel-by-zip", "IndexedParallelIterator::zip(" in src and "IndexedParallelIterator::enumerate(" in src, f.loc(bb), "parallel source: %s" % src[:300], f)
        # uses of the cache parameter: only entry/or_default/take before, get_mut after, none in closures called by rayon
        cache_uses = []
        for fn in [f] + prog.find_fns("^" + re.escape(f.path) + r"::\{closure#\d+\}"):
            pvf = prog.prov(fn)
            for bb, t in fn.calls():
                for a in t["args"]:
                    r = M.render(M.peel(pvf.of_operand(a)))
                    if re.match(r"^(cache|<env>\.(_ref__)?cache)$", r):
                        cache_uses.append((fn.path.split("::")[-1], M.callee_of(t).split("::")[-1]))
        ok = all(c in ("entry", "get_mut") for _, c in cache_uses) and cache_uses
        ctx.ob("R5", "cache-map-accesses", ok, f.loc(0), "accesses to the shared cache map: %s" % sorted(set(cache_uses)), f)
