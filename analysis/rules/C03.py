"""C03 — post-state reads see pre-state overlaid with all of the set's mutations."""
import re

from .. import cond as C
from .. import mir as M
from .. import routing
from .. import tables as T

META = {
    "explanation": "R1 pre/post x own/extern routing table of the state-read dispatch (derived from the variant names). R2 the post view is built from all mutations between the passes: "
                   "the first pass (RunMode::Outputs) receives an empty PostState, the insert loop runs over every solution and every state_mutation of the set *returned by* the first pass, "
                   "keyed by (solution.predicate_to_solve.contract, mutation.key) -> mutation.value, and the second pass (RunMode::Checks) is given the view built from that map and is dominated "
                   "by success of the first; the StateRead impl of the view forwards the request unchanged to the overlay helper, which on the no-mutation path delegates the whole request to the "
                   "pre-state. R3 the deferral mask contains every Effects flag whose name starts with Post. R4 the Outputs pass keeps the non-deferred nodes, the Checks pass the deferred ones. "
                   "R5 the deferred set is closed under descendants (propagation iterated to a fixed point or in topological order)."
                   " R7 the per-key loop of the overlay: for each of num_values keys, a key found in the contract's mutations yields a clone of that value, any other key the single value read from "
                   "the pre-state at the *same* key; the key is advanced by next_key exactly once per value and the loop ends at num_values or when next_key has no successor; next_key walks the key "
                   "from its last word, turns Word::MAX into Word::MIN and carries, adds one to the first other word and returns, and returns None only when every word carried.",
    "not_decided": "what HashMap::get, Vec::push and clone do (std); that a deletion is represented as an empty value is a convention of the callers.",
}

TWO = "essential_check::solution::check_and_compute_solution_set_two_pass"
ONE = "essential_check::solution::check_and_compute_solution_set"


def run(ctx):
    prog = ctx.prog
    ctx.rule("R1", "routing: Post* -> StateReads::post, others -> pre; *Extern -> external reader; own contract = this_solution().predicate_to_solve.contract")
    ctx.rule("R2", "the post view is built from all mutations of the set returned by the first pass, between the passes")
    ctx.rule("R3", "the deferral mask contains every Post* effect flag")
    ctx.rule("R4", "run-mode split: Outputs keeps non-deferred nodes, Checks keeps deferred nodes")
    ctx.rule("R5", "the deferred set is closed under descendants")
    routing.check_routing(ctx, "R1")
    r2(ctx, prog)
    r3(ctx, prog)
    r4(ctx, prog)
    r5(ctx, prog)
    # R6: exactness of the byte scan the deferral relies on (C15's scan rules, re-evaluated here)
    from . import C15
    from .C19 import _Only
    ctx.rule("R6", "the byte scan used for deferral is exact (C15 R2/R3): flag pairs, immediates skipped, false only at end of input")
    C15.run(_Only(ctx, "R1", "R6"))
    C15.run(_Only(ctx, "R2", "R6"))
    C15.run(_Only(ctx, "R3", "R6"))
    if not getattr(ctx, "_src", None):
        # nodes evaluated in the second pass start from the outputs their first-pass parents left in the cross-pass cache (C01 R4),
        # and the set the overlay is built from keeps every declared mutation (computed ones are only appended)
        from . import C01
        ctx.rule("R8", "second-pass nodes receive their first-pass parents' outputs (C01 R4); the returned set keeps the declared mutations and only appends computed ones")
        C01.run(_Only(ctx, "R4", "R8"))
        dm = prog.fn("essential_check::solution::decode_mutations")
        if ctx.anchor("R8", "fn decode_mutations", dm):
            muts = []
            for bb, t in dm.calls():
                tys = [M.norm_ty(x) for x in t.get("arg_tys", [])]
                if tys and tys[0] == "&mut std::vec::Vec<essential_types::solution::Mutation>" and not dm.blocks[bb]["cleanup"]:
                    muts.append(M.callee_of(t).split("::")[-1])
            ctx.ob("R8", "declared-mutations-are-kept:only-push-on-state_mutations", muts == ["push"], dm.loc(0), "mutating calls on a solution's state_mutations: %s" % muts, dm)
    if not getattr(ctx, "_src", None):
        # computed mutations reach the overlay only if the list decoder reads every mutation up to the end of its input (C18 R3)
        from . import C18
        from .C19 import _OnlyKeys
        C18.run(_OnlyKeys(ctx, "R3", "R8", r"mutations-reader|decode_mutation"))
    ctx.rule("R7", "per-key overlay: a mutated key yields the mutation's value, any other key one word-vector read from the pre-state at that key; the key advances by next_key (carry from the last word) once per value")
    r7(ctx, prog)


def r2(ctx, prog):
    f = prog.fn(TWO)
    if not ctx.anchor("R2", "fn check_and_compute_solution_set_two_pass", f):
        return
    ctx.saw(f)
    pv = prog.prov(f)
    calls = [(bb, t) for bb, t in f.calls() if M.callee_of(t) == ONE and not f.blocks[bb]["cleanup"]]
    if not ctx.ob("R2", "two-pass-calls", len(calls) == 2, f.loc(0), "%d calls of check_and_compute_solution_set" % len(calls), f):
        return
    cfg = f.cfg()
    (b1, t1), (b2, t2) = calls
    if not cfg.dominates(b1, b2):
        (b1, t1), (b2, t2) = (b2, t2), (b1, t1)
    ctx.ob("R2", "first-dominates-second", cfg.dominates(b1, b2), f.loc(b2), "blocks %d -> %d" % (b1, b2), f)
    mode1 = M.render(pv.of_operand(t1["args"][5]))
    mode2 = M.render(pv.of_operand(t2["args"][5]))
    ctx.ob("R2", "first-pass-mode=Outputs", mode1.endswith("RunMode::Outputs{}"), f.loc(b1), "first call run mode %s" % mode1, f)
    ctx.ob("R2", "second-pass-mode=Checks", mode2.endswith("RunMode::Checks{}"), f.loc(b2), "second call run mode %s" % mode2, f)
    atoms2 = [a.text for a in C.conditions(prog, f, b2)]
    ctx.ob("R2", "second-pass-only-after-first-succeeded", any(a.startswith("ok(" + ONE + "(") for a in atoms2), f.loc(b2), "dominating: %s" % [a[:80] for a in atoms2], f)
    s1 = pv.of_operand(t1["args"][0])
    s2 = pv.of_operand(t2["args"][0])
    r1, r2_ = M.render(s1), M.render(s2)
    EMPTY = "essential_check::solution::PostStateArc::PostStateArc{std::sync::Arc::new(<essential_check::solution::PostState as std::default::Default>::default()), std::clone::Clone::clone(state)}"
    ctx.ob("R2", "first-pass-sees-empty-post-state", r1 == "tuple{std::clone::Clone::clone(state), <essential_check::solution::PostStateArc<S> as std::clone::Clone>::clone(%s)}" % EMPTY,
           f.loc(b1), "first pass state: %s" % r1[:300], f)
    BUILT = ("essential_check::solution::PostStateArc::PostStateArc{std::sync::Arc::new(Result::expect(std::sync::Arc::try_unwrap("
             "std::sync::Arc::new(<essential_check::solution::PostState as std::default::Default>::default())), 'post state should have one reference')), std::clone::Clone::clone(state)}")
    ok2 = r2_ == "tuple{std::clone::Clone::clone(state), <essential_check::solution::PostStateArc<S> as std::clone::Clone>::clone(%s)}" % BUILT
    # accept any spelling in which the second view wraps the map that received the inserts (checked below) and the same pre-state
    ctx.ob("R2", "second-pass-sees-(pre, built-post-view)", ok2 or ("PostStateArc{std::sync::Arc::new(" in r2_ and r2_.startswith("tuple{std::clone::Clone::clone(state), ") and "default()" in r2_ and "try_unwrap" in r2_),
           f.loc(b2), "second pass state: %s" % r2_[:300], f)
    set2 = M.render(pv.of_operand(t2["args"][1]))
    ctx.ob("R2", "second-pass-checks-the-set-returned-by-the-first", set2.startswith(ONE + "(") and set2.endswith("?.1"), f.loc(b2), "second pass set: %s" % set2[:200], f)
    # the insert
    ins = [(bb, t) for bb, t in f.calls() if M.callee_of(t) == "std::collections::HashMap::insert" and not f.blocks[bb]["cleanup"]]
    if not ctx.ob("R2", "one-insert-into-the-post-map", len(ins) == 1, f.loc(0), "%d HashMap::insert call(s)" % len(ins), f):
        return
    bi, ti = ins[0]
    a = [pv.of_operand(x) for x in ti["args"]]
    ra = [M.render(x) for x in a]
    SOL = r"\(<std::slice::Iter<'a, T> as std::iter::Iterator>::next\(<&'a std::vec::Vec<T, A> as std::iter::IntoIterator>::into_iter\(\*?" + re.escape(ONE) + r"\(.*\)\?\.1\.solutions\)\) as Some\)\.0"
    MUT = r"\(<std::slice::Iter<'a, T> as std::iter::Iterator>::next\(<&'a std::vec::Vec<T, A> as std::iter::IntoIterator>::into_iter\(\*?" + SOL + r"\.state_mutations\)\) as Some\)\.0"
    m_map = re.match(r"^std::collections::hash_map::Entry::or_default\(std::collections::HashMap::entry\((.*)\.state, <essential_types::ContentAddress as std::clone::Clone>::clone\(\*?(.*)\.predicate_to_solve\.contract\)\)\)$", ra[0])
    ctx.ob("R2", "insert:map-keyed-by-solution-contract", bool(m_map) and bool(re.match("^" + SOL + "$", m_map.group(2))), f.loc(bi), "receiver %s" % ra[0][:400], f)
    if m_map:
        ctx.ob("R2", "insert:into-the-post-state-of-the-second-pass", "try_unwrap" in m_map.group(1) and "PostState as std::default::Default>::default()" in m_map.group(1), f.loc(bi),
               "map owner %s" % m_map.group(1)[:200], f)
    ctx.ob("R2", "insert:key=mutation.key", bool(re.match(r"^<std::vec::Vec<T, A> as std::clone::Clone>::clone\(\*?" + MUT + r"\.key\)$", ra[1])), f.loc(bi), "key %s" % ra[1][:300], f)
    ctx.ob("R2", "insert:value=mutation.value", bool(re.match(r"^<std::vec::Vec<T, A> as std::clone::Clone>::clone\(\*?" + MUT + r"\.value\)$", ra[2])), f.loc(bi), "value %s" % ra[2][:300], f)
    loops = M.loops_containing(f, bi)
    ctx.ob("R2", "insert:inside-solutions-x-mutations-loops", len(loops) == 2, f.loc(bi), "%d enclosing loops" % len(loops), f)
    at = [x.text for x in C.conditions(prog, f, bi)]
    bad = [x for x in at if not (x.startswith("ok(" + ONE + "(") or x.startswith("is:Some(<std::slice::Iter<'a, T> as std::iter::Iterator>::next("))]
    ctx.ob("R2", "insert:unconditional", not bad and not any(re.search(r"Iterator::(take|skip|filter|step_by|rev)\(", x) for x in at), f.loc(bi), "dominating: %s" % [x[:100] for x in at], f)
    ctx.ob("R2", "insert:between-the-passes", cfg.dominates(b1, bi) and cfg.reaches(bi, b2) and not cfg.reaches(b2, bi), f.loc(bi), "first pass bb%d, insert bb%d, second pass bb%d" % (b1, bi, b2), f)
    # the view's StateRead impl and the overlay helper
    v = prog.one_fn(r"^<essential_check::solution::PostStateArc<S> as essential_vm::state_read::StateRead>::key_range$")
    if ctx.anchor("R2", "StateRead for PostStateArc", v):
        ctx.saw(v)
        pvv = prog.prov(v)
        cs = [(bb, t) for bb, t in v.calls() if M.callee_of(t) == "essential_check::solution::read_or_fallback"]
        ok = False
        detail = "no call"
        if len(cs) == 1:
            r = [M.render(M.peel(pvv.of_operand(x))).lstrip("*") for x in cs[0][1]["args"]]
            detail = "read_or_fallback(%s)" % ", ".join(r)
            ok = r == ["self.0", "self.1", "contract_addr", "key", "num_values"]
        ctx.ob("R2", "view-forwards-the-request-unchanged", ok, v.loc(0), detail, v)
        rows = [(val, at) for _, val, at in M.return_table(prog, v)]
        ctx.ob("R2", "view-answers-only-through-the-overlay-helper", rows == [("essential_check::solution::read_or_fallback(self.0, self.1, contract_addr, key, num_values)", [])], v.loc(0),
               "returns %s (no fast path beside the overlay helper)" % [(val[:80], at) for val, at in rows], v)
    h = prog.fn("essential_check::solution::read_or_fallback")
    if ctx.anchor("R2", "fn read_or_fallback", h):
        ctx.saw(h)
        pvh = prog.prov(h)
        # the None arm of post.state.get(contract) delegates the whole request
        kr = [(bb, t) for bb, t in h.calls() if M.callee_decl(t) == "essential_vm::state_read::StateRead::key_range"]
        whole = []
        single = []
        for bb, t in kr:
            r = [M.render(M.peel(pvh.of_operand(x))) for x in t["args"]]
            at = [x.text for x in C.conditions(prog, h, bb)]
            if r[3] == "num_values":
                whole.append((bb, r, at))
            else:
                single.append((bb, r, at))
        ok = len(whole) == 1 and whole[0][1][0] == "state" and whole[0][1][1] == "contract_addr" and whole[0][2] == ["is:None(std::collections::HashMap::get(post.state, contract_addr))"]
        ctx.ob("R2", "overlay:no-mutation-for-contract->whole-request-to-pre-state", ok, h.loc(whole[0][0]) if whole else h.loc(0),
               "whole-request delegations: %s" % [(r, a) for _, r, a in whole], h)
        ok = len(single) == 1 and single[0][1][0] == "state" and single[0][1][3] == "1" and any(a.startswith("is:None(std::collections::HashMap::get((std::collections::HashMap::get(post.state, contract_addr) as Some).0") for a in single[0][2])
        ctx.ob("R2", "overlay:unmutated-key->single-read-from-pre-state", ok, h.loc(single[0][0]) if single else h.loc(0), "single reads: %s" % [(r, a) for _, r, a in single], h)
        gets = [(bb, t) for bb, t in h.calls() if M.callee_of(t) == "std::collections::HashMap::get"]
        ctx.ob("R2", "overlay:looks-up-(contract,key)", len(gets) == 2, h.loc(0), "%d map lookups" % len(gets), h)


def r3(ctx, prog):
    inner = prog.fn("essential_check::solution::check_predicate_inner")
    if not ctx.anchor("R3", "fn check_predicate_inner", inner):
        return
    want = sorted(k for k in prog.consts if k.startswith("essential_asm::effects::Effects::Post"))
    ctx.floor("R3", "Post* effect flags", len(want), 2)
    hits = []
    for c in [inner] + prog.closures_of(inner):
        pv = prog.prov(c)
        for bb, t in c.calls():
            if M.callee_of(t) == "essential_asm::effects::bytes_contains_any":
                hits.append((c, bb, pv.of_operand(t["args"][0]), pv.of_operand(t["args"][1])))
    if not ctx.ob("R3", "deferral-scan-present", len(hits) == 1, inner.loc(0), "%d bytes_contains_any call(s)" % len(hits), inner):
        return
    c, bb, bytes_t, mask = hits[0]
    ctx.saw(c)
    named = sorted({x.a for x in mask.walk() if x.kind == "named"})
    ors_only = all(x.kind in ("named", "ref") or (x.kind == "call" and re.search(r"BitOr for .*Effects>::bitor$|Effects>::union$", x.a)) for x in mask.walk())
    ctx.ob("R3", "mask-contains-every-Post-flag", set(want) == set(named) and ors_only, c.loc(bb), "mask = %s; it must be exactly the Post* flags: %s" % (M.render(mask)[:300], want), c)
    ctx.ob("R3", "scan-reads-the-node's-program", re.search(r"GetProgram::get_program\(.*node\.program_address\)\.0$", M.render(M.peel(bytes_t))) is not None, c.loc(bb),
           "scanned bytes: %s" % M.render(bytes_t)[:200], c)
    # the closure is what find_deferred receives
    pvi = prog.prov(inner)
    fd = [(b2, t2) for b2, t2 in inner.calls() if M.callee_of(t2) == "essential_check::solution::find_deferred"]
    ok = len(fd) == 1 and M.render(pvi.of_operand(fd[0][1]["args"][1])).startswith("{closure")
    ctx.ob("R3", "filter-is-passed-to-find_deferred", ok, inner.loc(fd[0][0]) if fd else inner.loc(0), "find_deferred calls: %d" % len(fd), inner)


def r4(ctx, prog):
    inner = prog.fn("essential_check::solution::check_predicate_inner")
    if not inner:
        return
    pv = prog.prov(inner)
    sw = None
    for bb in range(len(inner.blocks)):
        t = inner.term(bb)
        if t["k"] == "switch":
            d = pv.of_operand(t["discr"])
            if d.kind == "discr" and "run_mode" in M.render(d):
                sw = bb
                break
    if not ctx.anchor("R4", "switch over RunMode in check_predicate_inner", sw is not None, inner.loc(0)):
        return
    for arm in T.arms_of(inner, sw):
        name = T.discr_to_variant(prog, "essential_check::solution::RunMode", arm.value, by="vi") if arm.value is not None else None
        if name is None:
            # otherwise arm may stand for the last variant
            names = [v[0] for v in (T.enum_variants(prog, "essential_check::solution::RunMode") or [])]
            taken = [T.discr_to_variant(prog, "essential_check::solution::RunMode", int(v), by="vi") for v, _ in inner.term(sw)["arms"]]
            rest = [n for n in names if n not in taken]
            if len(rest) == 1 and not arm.is_unreachable():
                name = rest[0]
            else:
                continue
        calls = [M.callee_of(t).split("::")[-1] for _, t in arm.calls() if "remove_" in M.callee_of(t)]
        want = {"Outputs": ["remove_deferred"], "Checks": ["remove_not_deferred"]}.get(name)
        ctx.ob("R4", "%s-arm" % name, calls == want, arm.where(), "RunMode::%s arm calls %s, expected %s" % (name, calls, want), inner)
    for fname, keep_deferred in [("remove_deferred", False), ("remove_not_deferred", True)]:
        g = prog.fn("essential_check::solution::" + fname)
        if not ctx.anchor("R4", "fn " + fname, g):
            continue
        ctx.saw(g)
        verdict = None
        for c in prog.find_fns("^" + re.escape(g.path) + r"::\{closure#\d+\}(::\{closure#\d+\})*$"):
            cs = [t for _, t in c.calls() if M.callee_of(t) == "std::collections::HashSet::contains"]
            if not cs:
                continue
            # does the closure return contains(..) or its negation?
            nots = [st for b in c.blocks for st in b["stmts"] if st["k"] == "assign" and st["rv"]["k"] == "unop" and st["rv"]["op"] == "Not"]
            dest = M.Place(cs[0]["dest"])
            verdict = (not nots) if dest.is_local() else None
            if nots:
                verdict = False
            elif dest.is_local() and dest.local == 0:
                verdict = True
        ctx.ob("R4", "%s:filter-polarity" % fname, verdict is keep_deferred, "%s:%d" % (g.file, g.line),
               "%s keeps nodes where deferred.contains(node) is %s; expected %s" % (fname, verdict, keep_deferred), g)


def r5(ctx, prog):
    g = prog.fn("essential_check::solution::find_deferred")
    if not ctx.anchor("R5", "fn find_deferred", g):
        return
    ctx.saw(g)
    pv = prog.prov(g)
    child_inserts = []
    for bb, t in g.calls():
        if M.callee_of(t) == "std::collections::HashSet::insert" and len(t["args"]) > 1:
            r = M.render(pv.of_operand(t["args"][1]))
            if "node_edges" in r:
                child_inserts.append((bb, r))
    if not ctx.ob("R5", "child-propagation-present", len(child_inserts) >= 1, g.loc(0), "%d insert(s) of node_edges children" % len(child_inserts), g):
        return
    bb, r = child_inserts[0]
    loops = M.loops_containing(g, bb)
    fix = False
    why = []
    for h, body in loops:
        for sb in M.loop_exit_switches(g, body):
            d = pv.of_operand(g.term(sb)["discr"])
            txt = M.render(d)
            alts = " ".join(M.render(a) for x in d.walk() if x.kind == "phi" for a in x.sub)
            if "HashSet::len(" in txt or "HashSet::len(" in alts or "HashSet::insert(" in alts or "HashSet::insert(" in txt:
                fix = True
                why.append("loop at bb%d exits on `%s`" % (h, txt[:120]))
    # topological order alternative
    topo = "parallel_topo_sort" in r or any("sorted" in M.render(pv.of_operand(t["args"][0])) for b2, t in g.calls() if M.callee_of(t).endswith("into_iter") and t["args"])
    ctx.ob("R5", "deferred-set-closed-under-descendants", fix or topo, g.loc(bb),
           "children are inserted inside %d loop(s); fixed-point iteration: %s; topological-order iteration: %s. A single pass in index order misses descendants with a lower index than their parent (2->1->0)."
           % (len(loops), why or "none", topo), g)


def r7(ctx, prog):
    nk = prog.fn("essential_check::solution::next_key")
    if ctx.anchor("R7", "fn next_key", nk):
        ctx.saw(nk)
        tab = M.return_table(prog, nk)
        IT = r"<std::iter::Rev<I> as std::iter::Iterator>::next\(<I as std::iter::IntoIterator>::into_iter\(std::iter::Iterator::rev\(slice::iter_mut\(key\)\)\)\)"
        MAXV = str(2 ** 63 - 1)
        none = [(v, at) for _, v, at in tab if v == "Option::None{}"]
        some = [(v, at) for _, v, at in tab if v.startswith("Option::Some{")]
        ok = len(tab) == 2 and len(none) == 1 and len(some) == 1
        ok = ok and len(none[0][1]) == 1 and re.match(r"^is:None\(%s\)$" % IT, none[0][1][0]) is not None
        ok = ok and some[0][0] == "Option::Some{key}" and len(some[0][1]) == 2 and re.match(r"^is:Some\(%s\)$" % IT, some[0][1][0]) is not None \
            and re.match(r"^ne:\(%s as Some\)\.0∉\{%s\}$" % (IT, MAXV), some[0][1][1]) is not None
        ctx.ob("R7", "next_key:table", ok, nk.loc(0), "walks the words from the last; None only when the walk ends; Some(key) at the first word that is not Word::MAX; table %s" % [(v, [a[:40] + ".." + a[-30:] for a in at]) for _, v, at in tab], nk)
        pv = prog.prov(nk)
        stores = []
        for bb, b in enumerate(nk.blocks):
            if b.get("cleanup"):
                continue
            for st in b["stmts"]:
                if st["k"] == "assign" and not M.Place(st["pl"]).is_local():
                    stores.append((bb, M.render(pv.of_place(M.Place(st["pl"]))), M.render(pv.of_rvalue(st["rv"])), [a.text for a in C.conditions(prog, nk, bb)]))
        EL = r"\(%s as Some\)\.0" % IT
        carry = [s_ for s_ in stores if s_[2] == "std::num::<impl i64>::MIN" and re.match("^%s$" % EL, s_[1]) and any(re.match(r"^eq:%s=%s$" % (EL, MAXV), a) for a in s_[3])]
        inc = [s_ for s_ in stores if re.match(r"^AddWithOverflow\(%s, 1\)\.0$" % EL, s_[2]) and re.match("^%s$" % EL, s_[1]) and any(re.match(r"^ne:%s∉\{%s\}$" % (EL, MAXV), a) for a in s_[3])]
        ctx.ob("R7", "next_key:carry-and-increment", len(stores) == 2 and len(carry) == 1 and len(inc) == 1, nk.loc(0),
               "writes: %s" % [(s_[2][:60] if len(s_[2]) < 60 else s_[2][:24] + ".." + s_[2][-12:]) for s_ in stores], nk)
        loops = M.natural_loops(nk)
        ctx.ob("R7", "next_key:carry-continues,increment-returns", len(loops) == 1 and len(carry) == 1 and len(inc) == 1 and carry[0][0] in loops[0][1] and inc[0][0] not in loops[0][1], nk.loc(0),
               "the Word::MAX arm stays in the loop, the other arm leaves it", nk)
    h = prog.fn("essential_check::solution::read_or_fallback")
    if not ctx.anchor("R7", "fn read_or_fallback", h):
        return
    pv = prog.prov(h)
    cfg = h.cfg()
    loops = M.natural_loops(h)
    if not ctx.ob("R7", "overlay:one-loop", len(loops) == 1, h.loc(0), "%d loop(s)" % len(loops), h):
        return
    body = loops[0][1]
    r_ = lambda t, i: M.render(M.peel(pv.of_operand(t["args"][i])))
    it = [(bb, t) for bb, t in h.calls() if M.callee_of(t).endswith("IntoIterator>::into_iter")]
    ctx.ob("R7", "overlay:num_values-iterations", len(it) == 1 and r_(it[0][1], 0) == "std::ops::Range::Range{0, num_values}", h.loc(it[0][0]) if it else h.loc(0), "iterates %s" % [r_(t, 0) for _, t in it], h)
    gets = [(bb, t) for bb, t in h.calls() if M.callee_of(t) == "std::collections::HashMap::get" and bb in body]
    pushes = [(bb, t) for bb, t in h.calls() if M.callee_of(t) == "std::vec::Vec::push"]
    krs = [(bb, t) for bb, t in h.calls() if M.callee_decl(t) == "essential_vm::state_read::StateRead::key_range" and bb in body]
    nks = [(bb, t) for bb, t in h.calls() if M.callee_of(t) == "essential_check::solution::next_key"]
    if not ctx.ob("R7", "overlay:shape", len(gets) == 1 and len(pushes) == 2 and len(krs) == 1 and len(nks) == 1 and all(bb in body for bb, _ in pushes + nks), h.loc(0),
                  "in the loop: %d lookup(s), %d push(es), %d single read(s), %d next_key call(s)" % (len(gets), len(pushes), len(krs), len(nks)), h):
        return
    KEY = r_(gets[0][1], 1)
    G = "std::collections::HashMap::get(%s, %s)" % (r_(gets[0][1], 0), KEY)
    hit = [(bb, t) for bb, t in pushes if any(a.text == "is:Some(%s)" % G for a in C.conditions(prog, h, bb))]
    miss = [(bb, t) for bb, t in pushes if any(a.text == "is:None(%s)" % G for a in C.conditions(prog, h, bb))]
    ok = len(hit) == 1 and re.match(r"^(<.* as std::clone::Clone>::clone|std::clone::Clone::clone)\(\(%s as Some\)\.0\)$" % re.escape(G), M.render(pv.of_operand(hit[0][1]["args"][1]))) is not None
    ctx.ob("R7", "overlay:mutated-key->the-mutation's-value", ok and r_(gets[0][1], 0) == "(std::collections::HashMap::get(post.state, contract_addr) as Some).0", h.loc(hit[0][0]) if hit else h.loc(0),
           "pushes %s" % [M.render(pv.of_operand(t["args"][1]))[:160] for _, t in hit], h)
    kr = krs[0][1]
    kargs = [M.render(pv.of_operand(a)) for a in kr["args"]]
    strip = lambda x: re.sub(r"^(<.* as std::clone::Clone>::clone|std::clone::Clone::clone)\((.*)\)$", r"\2", x)
    ok = len(miss) == 1 and len(kargs) == 4 and strip(kargs[2]) == KEY and strip(kargs[1]) == "contract_addr" and kargs[3] == "1"
    want = "Option::unwrap_or_default(Vec::pop(%s?))" % M.render(pv.of_call(kr))
    got = M.render(pv.of_operand(miss[0][1]["args"][1])) if miss else "?"
    ctx.ob("R7", "overlay:other-key->one-value-read-at-that-key", ok and got == want, h.loc(miss[0][0]) if miss else h.loc(0), "single read key_range(%s); pushes %s" % (", ".join(k[:60] for k in kargs), got[:80] + ".."), h)
    nb = nks[0][0]
    header = loops[0][0]

    def same_iteration(a, b):
        seen, todo = {a}, [a]
        while todo:
            x = todo.pop()
            if x == b:
                return True
            for y in h.succs(x):
                if y in body and y != header and y not in seen:
                    seen.add(y)
                    todo.append(y)
        return False
    rows = [v for _, v, _ in M.return_table(prog, h) if v != "<propagate error>"]
    ctx.ob("R7", "overlay:returns-the-collected-values", rows == ["Result::Ok{var:out}"] or (len(rows) == 1 and re.match(r"^Result::Ok\{var:\w+\}$", rows[0]) is not None), h.loc(0), "returns %s" % rows, h)
    ctx.ob("R7", "overlay:key-advances-once-per-value", all(same_iteration(bb, nb) for bb, _ in pushes) and strip(r_(nks[0][1], 0)) != "" and cfg.dominates(gets[0][0], nb), h.loc(nb),
           "next_key is called after either push, once per iteration", h)
    # the key variable is reassigned only from next_key's Some
    key_locals = [l for l in range(1, h.arg_count + 1) if h.names.get(l) == "key" or (h.arg_names[l - 1:l] == ["key"])]
    kl = key_locals[0] if key_locals else 4
    defs = [d for d in pv.defs.get(kl, []) if d[2] != "partial"]
    rend = [M.render(pv.of_rvalue(d[3])) if d[2] == "rv" else M.render(pv.of_call(d[3])) for d in defs]
    ctx.ob("R7", "overlay:key:=next_key(key)", len(rend) == 1 and re.match(r"^\(essential_check::solution::next_key\(.*\) as Some\)\.0$", rend[0]) is not None, h.loc(nb), "key is reassigned from %s" % [x[:80] for x in rend], h)
    ex_at = []
    for bb in M.loop_exit_switches(h, body):
        t = h.term(bb)
        leaving = [x for x in [a[1] for a in t["arms"]] + [t["otherwise"]] if x not in body and h.term(x)["k"] != "unreachable"]
        d = M.render(pv.of_operand(t["discr"]))
        if leaving and "std::ops::Try>::branch(" not in d:
            ex_at.append(d[:120])
    ok = len(ex_at) == 2 and any("Range<A>>::next(" in x for x in ex_at) and any(x.startswith("discr(essential_check::solution::next_key(") for x in ex_at)
    ctx.ob("R7", "overlay:loop-ends-at-num_values-or-last-key", ok, h.loc(0), "loop exits (other than error propagation) decided by %s" % ex_at, h)
