"""C08 — stack, predicate, ALU and memory operations compute their documented results."""
import json
import os
import re

from .. import access as A
from .. import cond as C
from .. import dispatch as D
from .. import facts as F
from .. import mir as M
from .. import tables as T

META = {
    "explanation": "Decided for the scalar operations and the dispatch, where the operator, operand order and operand type in MIR *are* the semantics. R1 dispatch table: every op variant of "
                   "asm.yml is routed by step_op / step_op_<group> to the handler recorded in the reviewed table (no variant missing, none sharing another's handler). R2 scalar semantics, derived "
                   "from the `stack_out` expression of asm.yml: comparisons are one comparison of (a, b) in that order converted with From<bool>; And/Or are the short-circuit of `a != 0` and `b != 0`; "
                   "Not is `a == 0`; BitAnd/BitOr the bit operator; Add/Sub/Mul/Div/Mod are i64::checked_{add,sub,mul,div,rem}(a, b) with None mapped to an error and no wrapping/saturating/raw operator; "
                   "Shl is Shl(a: i64, b), Shr is Shr(a as u64, b) (logical), ShrI is Shr(a: i64, b) (arithmetic), each dominated by success of the bound check whose range is 0..BITS_IN_WORD = 0..64; "
                   "Dup/Swap closures return [w, w] / [b, a]. R3 operand plumbing: pop2 returns [second-popped, first-popped]; popN_pushM call f on the popped words in order and push only the `?`-checked "
                   "result of f (a failing operation never produces a result); the ExecError index is self.pc read before any pc update. R4 frame conditions: memory readers take &Memory / &[Arc<Memory>]. "
                   "R5 stack effect of fixed-arity ops equals asm.yml; no peeking. R6 the positions that DupFrom, SwapIndex, Load, Store, Reserve, SelectRange, Drop/pop_len_words*, Alloc, Free, "
                   "Memory Load/Store/LoadRange/StoreRange read and write, as linear forms over the length and the popped operands (len - 1 - index for depth indices, index for bottom-relative ones, "
                   "[index, index + len) for ranges, old length returned by Reserve/Alloc), the length being read after the operands are popped, the operand wiring of step_op_memory; EqRange takes exactly 2*len words, splits them at len and compares the halves, "
                   "EqSet compares the two decoded sets, decode_set takes each item below its length word.",
    "not_decided": "that slice/HashSet equality compare contents (std); that Vec/slice primitives (swap, copy_within, truncate, resize, split_at) do what std documents.",
}

CMPS = {"==": "Eq", ">": "Gt", "<": "Lt", ">=": "Ge", "<=": "Le"}
ALU = {"+": ("add", "checked_add"), "-": ("sub", "checked_sub"), "*": ("mul", "checked_mul"), "/": ("div", "checked_div"), "%": ("mod_", "checked_rem")}


def ok_values(prog, f):
    """Terms wrapped in Result::Ok{..} that flow to the return place."""
    pv = prog.prov(f)
    t = pv.of_local(0)
    alts = t.sub if t.kind == "phi" else [t]
    out = []
    for a in alts:
        if a.kind == "aggr" and a.a.endswith("Result::Ok") and a.sub:
            out.append(a.sub[0])
    return out, alts


def run(ctx):
    prog = ctx.prog
    for r, t in [("R1", "dispatch table: every op variant reaches the handler of the reviewed table"), ("R2", "scalar semantics from asm.yml stack_out expressions"),
                 ("R3", "operand plumbing: pop order, f applied in order, push only on Ok; error index = pc before update"), ("R4", "memory readers cannot write")]:
        ctx.rule(r, t)
    spec = T.load_spec(ctx.repo)
    with open(os.path.join(F.VERIF, "tables", "dispatch.json")) as fh:
        frozen = json.load(fh)["table"]
    tab, arms = D.extract(prog)
    n = 0
    for op in spec:
        g, v = op["group"], op["name"]
        got = tab.get(g, {}).get(v)
        want = frozen.get(g, {}).get(v)
        n += 1
        f, arm = arms.get((g, v), (None, None))
        ctx.ob("R1", "%s::%s" % (g, v), got is not None and want is not None and got == want, arm.where() if arm else "crates/vm/src/sync.rs",
               "dispatches to %s; reviewed table: %s" % (got, want), f)
    extra = [(g, v) for g in tab for v in tab[g] if not any(o["group"] == g and o["name"] == v for o in spec)]
    ctx.ob("R1", "no-unknown-variants", not extra, "crates/vm/src/sync.rs", "dispatched variants not in asm.yml: %s" % extra)
    ctx.floor("R1", "spec ops dispatched", n, 62)
    # top level
    so = prog.fn("essential_vm::sync::step_op")
    if ctx.anchor("R1", "fn step_op", so):
        ctx.saw(so)
        sw = T.entry_switch(so)
        pvo = prog.prov(so)
        seen = {}
        for arm in (T.arms_of(so, sw) if sw is not None else []):
            if arm.value is None:
                continue
            gname = T.discr_to_variant(prog, "essential_asm::op::Op", arm.value, by="vi")
            calls = [M.callee_of(t).split("::")[-1] for _, t in arm.calls() if M.callee_of(t).startswith("essential_vm::sync::step_op_")]
            inv = {v: k for k, v in D.GROUPS.items()}
            ctx.ob("R1", "Op::%s->step_op_%s" % (gname, inv.get(gname)), calls == ["step_op_" + inv.get(gname, "?")], arm.where(), "calls %s" % calls, so)
            seen[gname] = True
            for _, t in arm.calls():
                if M.callee_of(t).startswith("essential_vm::sync::step_op_"):
                    a0 = [M.render(M.peel(pvo.of_operand(a))) for a in t["args"][:2]]
                    ctx.ob("R1", "Op::%s:passes-the-matched-op" % gname, "(op as %s).0" % gname in a0, arm.where(), "arguments %s" % a0, so)
        ctx.ob("R1", "all-groups-dispatched", len(seen) == len(D.GROUPS), so.loc(0), "%d groups" % len(seen), so)

    # ---- R2 ---------------------------------------------------------------
    for op in spec:
        g, v = op["group"], op["name"]
        so_ = op["stack_out"]
        expr = so_[0] if isinstance(so_, list) and len(so_) == 1 and isinstance(so_[0], str) else None
        if g == "Pred" and v not in ("EqRange", "EqSet"):
            f, arm = arms.get((g, v), (None, None))
            clo = D.closure_of_arm(prog, f, arm) if f else None
            if not ctx.anchor("R2", "closure of Pred::%s" % v, clo):
                continue
            ctx.saw(clo)
            oks, alts = ok_values(prog, clo)
            r = M.render(oks[0]) if len(oks) == 1 else "?"
            pvc = prog.prov(clo)
            sws = [M.render(pvc.of_operand(clo.term(bb)["discr"])) for bb in range(len(clo.blocks)) if clo.term(bb)["k"] == "switch"]
            m = re.match(r"^(\w+) (==|>=|<=|>|<|&&|\|\||&|\|) (\w+)$", expr or "")
            ok = False
            want = "?"
            if m and m.group(2) in CMPS:
                want = "<T as std::convert::Into<U>>::into(%s(a, b))" % CMPS[m.group(2)]
                ok = r == want and (m.group(1), m.group(3)) == ("lhs", "rhs") and op["stack_in"] == ["lhs", "rhs"] and not sws
            elif m and m.group(2) in ("&&", "||"):
                const = "0" if m.group(2) == "&&" else "1"
                want = "<T as std::convert::Into<U>>::into(phi(%s | Ne(b, 0))) after switch on Ne(a, 0)" % const
                ok = r == "<T as std::convert::Into<U>>::into(phi(%s | Ne(b, 0)))" % const and sws == ["Ne(a, 0)"]
                if ok:
                    # the constant is produced exactly when a's test fails (&&) / succeeds (||)
                    ok = short_circuit_polarity(prog, clo, m.group(2))
            elif m and m.group(2) in ("&", "|"):
                want = "%s(a, b)" % {"&": "BitAnd", "|": "BitOr"}[m.group(2)]
                ok = r == want and not sws
            elif expr == "!a":
                want = "<T as std::convert::Into<U>>::into(Eq(a, 0))"
                ok = r == want and not sws
            ctx.ob("R2", "Pred::%s" % v, ok and len(alts) == len(oks) == 1, clo.loc(0), "spec `%s` <- %s; closure returns Ok(%s) with tests %s; expected %s" % (expr, op["stack_in"], r, sws, want), clo)
            ctx.ob("R2", "Pred::%s:bool->word" % v, v in ("BitAnd", "BitOr") or "convert::Into<U>>::into" in r, clo.loc(0), "conversion of the bool to a word (0/1) by From<bool>", clo)
        if g == "Alu":
            m = re.match(r"^(\w+) (\+|-|\*|/|%|<<|>>) (\w+)$", expr or "")
            if not ctx.ob("R2", "Alu::%s:spec-expression" % v, bool(m) and (m.group(1), m.group(3)) == ("lhs", "rhs"), "crates/asm-spec/asm.yml", "stack_out %s" % so_):
                continue
            if m.group(2) in ALU:
                fn_name, method = ALU[m.group(2)]
                f = prog.fn("essential_vm::alu::" + fn_name)
                if not ctx.anchor("R2", "fn alu::" + fn_name, f):
                    continue
                ctx.saw(f)
                r = M.render(prog.prov(f).of_local(0))
                ok = bool(re.match(r"^Option::ok_or\(i64::%s\(a, b\), <T as std::convert::Into<U>>::into\(essential_vm::error::AluError::\w+\{\}\)\)$" % method, r))
                others = [M.callee_of(t) for _, t in f.calls() if re.search(r"std::num::<impl i64>::", M.callee_of(t)) and not M.callee_of(t).endswith(method)]
                raw = [st["rv"]["op"] for b in f.blocks for st in b["stmts"] if st["k"] == "assign" and st["rv"]["k"] == "binop"]
                ctx.ob("R2", "Alu::%s" % v, ok and not others and not raw and frozen["Alu"][v] == ["essential_vm::stack::Stack::pop2_push1(fn:essential_vm::alu::%s)" % fn_name], "%s:%d" % (f.file, f.line),
                       "spec `%s`; alu::%s returns %s; other integer ops %s %s" % (expr, fn_name, r[:200], others, raw), f)
            else:
                fn_name = {"Shl": "shl", "Shr": "shr", "ShrI": "arithmetic_shr"}[v]
                f = prog.fn("essential_vm::alu::" + fn_name)
                if not ctx.anchor("R2", "fn alu::" + fn_name, f):
                    continue
                ctx.saw(f)
                oks, alts = ok_values(prog, f)
                r = M.render(oks[0]) if len(oks) == 1 else "?"
                want = {"Shl": "Shl(a, b)", "Shr": "(Shr((a as u64), b) as i64)", "ShrI": "Shr(a, b)"}[v]
                # operand types
                tys = [(st["rv"]["op"], st["rv"]["aty"]) for b in f.blocks for st in b["stmts"] if st["k"] == "assign" and st["rv"]["k"] == "binop" and st["rv"]["op"] in ("Shl", "Shr", "ShlUnchecked", "ShrUnchecked")]
                want_ty = {"Shl": [("Shl", "i64")], "Shr": [("Shr", "u64")], "ShrI": [("Shr", "i64")]}[v]
                guarded = False
                for bb, b in enumerate(f.blocks):
                    for st in b["stmts"]:
                        if st["k"] == "assign" and st["rv"]["k"] == "binop" and st["rv"]["op"] in ("Shl", "Shr"):
                            guarded = "ok(essential_vm::alu::check_shift_bounds(b))" in [a.text for a in C.conditions(prog, f, bb)]
                ctx.ob("R2", "Alu::%s" % v, r == want and tys == want_ty and guarded and frozen["Alu"][v] == ["essential_vm::stack::Stack::pop2_push1(fn:essential_vm::alu::%s)" % fn_name],
                       "%s:%d" % (f.file, f.line), "spec `%s`; alu::%s returns Ok(%s) on operand types %s, guarded by the bound check: %s; expected %s on %s" % (expr, fn_name, r, tys, guarded, want, want_ty), f)
    csb = prog.fn("essential_vm::alu::check_shift_bounds")
    if ctx.anchor("R2", "fn check_shift_bounds", csb):
        ctx.saw(csb)
        pv = prog.prov(csb)
        rng = [M.render(pv.of_rvalue(st["rv"])) for b in csb.blocks for st in b["stmts"] if st["k"] == "assign" and st["rv"]["k"] == "aggr" and "Range" in st["rv"].get("adt", "")]
        cont = [(bb, t) for bb, t in csb.calls() if M.callee_of(t).endswith("Range::contains")]
        ok = rng == ["std::ops::Range::Range{0, essential_vm::alu::BITS_IN_WORD}"] and len(cont) == 1 and M.render(M.peel(pv.of_operand(cont[0][1]["args"][1]))) == "b" \
            and prog.const_value("essential_vm::alu::BITS_IN_WORD") == 64
        errs = {}
        for bb, b in enumerate(csb.blocks):
            for st in b["stmts"]:
                if st["k"] == "assign" and st["rv"]["k"] == "aggr" and st["rv"].get("variant") in ("Err", "Ok") and M.Place(st["pl"]).is_local() and M.Place(st["pl"]).local == 0:
                    errs[st["rv"]["variant"]] = [a.text for a in C.conditions(prog, csb, bb)]
        pol = errs.get("Err") == ["false:std::ops::Range::contains(std::ops::Range::Range{0, essential_vm::alu::BITS_IN_WORD}, b)"] and \
            errs.get("Ok") == ["true:std::ops::Range::contains(std::ops::Range::Range{0, essential_vm::alu::BITS_IN_WORD}, b)"]
        ctx.ob("R2", "shift-bound=0..64", ok and pol, "%s:%d" % (csb.file, csb.line), "range %s, BITS_IN_WORD=%s, Err under %s" % (rng, prog.const_value("essential_vm::alu::BITS_IN_WORD"), errs.get("Err")), csb)
    for (g, v, want) in [("Stack", "Dup", "array{w, w}"), ("Stack", "Swap", "array{b, a}")]:
        f, arm = arms.get((g, v), (None, None))
        clo = D.closure_of_arm(prog, f, arm) if f else None
        if ctx.anchor("R2", "closure of %s::%s" % (g, v), clo):
            oks, alts = ok_values(prog, clo)
            ctx.ob("R2", "%s::%s" % (g, v), len(oks) == 1 and len(alts) == 1 and M.render(oks[0]) == want, clo.loc(0), "closure returns Ok(%s); expected %s" % ([M.render(o) for o in oks], want), clo)

    # ---- R3 ---------------------------------------------------------------
    S = "essential_vm::stack::Stack::"
    f = prog.fn(S + "pop2")
    if ctx.anchor("R3", "fn Stack::pop2", f):
        ctx.saw(f)
        pv = prog.prov(f)
        pops = sorted((bb, t) for bb, t in f.calls() if M.callee_of(t) == S + "pop")
        oks, _ = ok_values(prog, f)
        ok = False
        if len(pops) == 2 and len(oks) == 1 and oks[0].kind == "aggr" and len(oks[0].sub) == 2 and f.cfg().dominates(pops[0][0], pops[1][0]):
            ids = []
            for e in oks[0].sub:
                e = M.peel(e)
                src = M.op_place(e.meta["args"][0]) if e.kind == "try" and e.meta else None
                ids.append(src.local if src is not None else None)
            first, second = M.Place(pops[0][1]["dest"]).local, M.Place(pops[1][1]["dest"]).local
            ok = ids == [second, first]
        ctx.ob("R3", "pop2=[second-popped, first-popped]", ok, f.loc(0), "pop2 returns the word popped last in position 0 (so (a, b) = (below-top, top))", f)
    for name, npop, inner in [("pop1_push1", 1, "pop"), ("pop2_push1", 2, "pop2"), ("pop8_push1", 8, "pop8"), ("pop1_push2", 1, "pop"), ("pop2_push2", 2, "pop2"), ("pop2_push4", 2, "pop2")]:
        f = prog.fn(S + name)
        if not ctx.anchor("R3", "fn Stack::" + name, f):
            continue
        ctx.saw(f)
        pv = prog.prov(f)
        cs = [(bb, M.callee_decl(t) if not t.get("res") else M.callee_of(t), [M.render(pv.of_operand(a)) for a in t["args"]]) for bb, t in f.calls()
              if not re.search(r"ops::(Try|FromResidual)", M.callee_decl(t))]
        seq = [c.split("::")[-1] for _, c, _ in cs]
        pusher = "push" if name.endswith("push1") else "extend"
        args = "tuple{" + ", ".join(["%s%s(self)?[%d]" % (S, inner, i) for i in range(npop)]) + "}" if inner == "pop2" else "tuple{%s%s(self)?}" % (S, inner)
        call = [a for _, c, a in cs if c.endswith("FnOnce::call_once")]
        push = [(bb, a) for bb, c, a in cs if c == S + pusher]
        ok = seq == [inner, "call_once", pusher] and call == [["f", args]] and len(push) == 1 and push[0][1] == ["self", "std::ops::FnOnce::call_once(f, %s)?" % args]
        ctx.ob("R3", name + ":pop-apply-push", ok, f.loc(0), "calls %s; f(%s); %s(%s)" % (seq, call, pusher, push[0][1][1][:120] if push else None), f)
        if push:
            at = [a.text for a in C.conditions(prog, f, push[0][0])]
            ctx.ob("R3", name + ":push-only-if-f-succeeded", any(a.startswith("ok(std::ops::FnOnce::call_once(f,") for a in at), f.loc(push[0][0]), "push dominated by %s" % [a[:80] for a in at], f)
    ex = prog.fn("essential_vm::vm::Vm::exec")
    if ctx.anchor("R3", "fn Vm::exec", ex):
        pv = prog.prov(ex)
        hits = []
        for bb, b in enumerate(ex.blocks):
            for st in b["stmts"]:
                if st["k"] == "assign" and st["rv"]["k"] == "aggr" and st["rv"].get("variant") == "ExecError":
                    at = [a.text for a in C.conditions(prog, ex, bb)]
                    if any(a.startswith("is:Err(essential_vm::sync::step_op(") for a in at):
                        hits.append((bb, M.render(pv.of_operand(st["rv"]["ops"][0]))))
        ok = len(hits) == 1 and hits[0][1] == "self.pc"
        ctx.ob("R3", "error-index=self.pc", ok, ex.loc(hits[0][0]) if hits else ex.loc(0), "ExecError built from %s on the Err arm of step_op" % hits, ex)
        # no write to pc between the fetch and the error construction: pc writes are dominated by the Ok arm
        bad = []
        for bb, b in enumerate(ex.blocks):
            for st in b["stmts"]:
                if st["k"] != "assign":
                    continue
                pl = M.Place(st["pl"])
                tgt = M.peel(pv.of_place(pl)) if pl.proj else None
                if tgt is not None and tgt.kind == "field" and tgt.a == "pc" and not b["cleanup"]:
                    at = [a.text for a in C.conditions(prog, ex, bb)]
                    if not any(a.startswith("is:Ok(essential_vm::sync::step_op(") for a in at):
                        bad.append(ex.loc(bb))
        ctx.ob("R3", "pc-updated-only-after-success", not bad, bad[0] if bad else ex.loc(0), "pc assignments not dominated by `step_op(..) is Ok`: %s" % bad, ex)
    check_stack_effects(ctx, prog, spec, tab, arms)
    ctx.rule("R6", "addressed positions of the data-movement ops as linear forms of the length and the popped operands (asm.yml: `0` is the top / the bottom, `starting at the index`, `returns the index to the start`); operand wiring of the memory ops")
    A.check(ctx, "R6")
    # Select / SelectRange: the condition goes through bool_from_word (0/1 only, anything else an error) and 1 keeps the top (C09 R1)
    from . import C09
    from .C19 import _OnlyKeys
    C09.run(_OnlyKeys(ctx, "R1", "R6", r"select|bool_from_word"))
    # ---- R4 ---------------------------------------------------------------
    for name in ("load", "load_range", "len", "is_empty"):
        f = prog.fn("essential_vm::memory::Memory::" + name)
        if ctx.anchor("R4", "fn Memory::" + name, f):
            ins = f.j.get("inputs", [""])
            ctx.ob("R4", "Memory::%s:takes-&self" % name, M.norm_ty(ins[0]).startswith("&essential_vm::memory::Memory") and not M.norm_ty(ins[0]).startswith("&mut"), "%s:%d" % (f.file, f.line), "receiver type %s" % ins[0], f)
    f = prog.fn("essential_vm::sync::step_op_parent_memory")
    if ctx.anchor("R4", "fn step_op_parent_memory", f):
        ins = [M.norm_ty(x) for x in f.j.get("inputs", [])]
        ctx.ob("R4", "parent-memory-is-read-only", len(ins) == 3 and ins[2] == "&[std::sync::Arc<essential_vm::memory::Memory>]", "%s:%d" % (f.file, f.line), "parameters %s" % ins, f)


def short_circuit_polarity(prog, clo, op):
    """`a != 0 && b != 0`: the constant false is assigned on the edge where Ne(a,0) is false; for || the constant true where it is true."""
    pv = prog.prov(clo)
    for bb, b in enumerate(clo.blocks):
        for st in b["stmts"]:
            if st["k"] == "assign" and st["rv"]["k"] == "use" and st["rv"]["a"].get("k") == "const" and st["rv"]["a"].get("ty") == "bool":
                at = [a.text for a in C.conditions(prog, clo, bb)]
                v = M.const_int(st["rv"]["a"])
                if op == "&&" and v == 0 and at == ["Eq(0, a)"]:
                    return True
                if op == "||" and v == 1 and at == ["Ne(0, a)"]:
                    return True
    return False


# ---------------------------------------------------------------------------
# R5: stack effect (words popped / pushed) of fixed-arity ops and operand discipline
# ---------------------------------------------------------------------------

S_ = "essential_vm::stack::Stack::"
POPS = {"pop": 1, "pop2": 2, "pop3": 3, "pop4": 4, "pop8": 8, "pop_len": 1}
POP_PUSH = {"pop1_push1": (1, 1), "pop2_push1": (2, 1), "pop8_push1": (8, 1), "pop1_push2": (1, 2), "pop2_push2": (2, 2), "pop2_push4": (2, 4)}
VAR_POPS = {"pop_len_words", "pop_words", "pop_len_words2"}
PEEKS = re.compile(r"slice::<impl \[T\]>::(last|first|last_mut|first_mut|split_last|split_first|split_last_mut)$")

# ops whose asm.yml stack_in / stack_out entries are one word each (others are variable-length or illustrative)
FIXED = {
    "Stack": ["Push", "Pop", "Dup", "DupFrom", "Swap", "Select", "Repeat", "RepeatEnd", "Reserve", "Load", "Store"],
    "Pred": ["Eq", "Gt", "Lt", "Gte", "Lte", "And", "Or", "Not", "BitAnd", "BitOr"],
    "Alu": ["Add", "Sub", "Mul", "Div", "Mod", "Shr", "ShrI"],
    "TotalControlFlow": ["Halt", "HaltIf", "JumpIf", "PanicIf"],
    "Memory": ["Alloc", "Free", "Load", "Store"],
    "ParentMemory": ["Load"],
    "Access": ["RepeatCounter", "PredicateDataLen", "PredicateDataSlots"],
}
HANDLER_OF = {  # handler function analysed for ops dispatched to a named function
    "essential_vm::stack::Stack::dup_from", "essential_vm::stack::Stack::select", "essential_vm::stack::Stack::reserve_zeroed", "essential_vm::stack::Stack::load",
    "essential_vm::stack::Stack::store", "essential_vm::repeat::repeat", "essential_vm::total_control_flow::halt_if", "essential_vm::total_control_flow::jump_if",
    "essential_vm::total_control_flow::panic_if", "essential_vm::access::repeat_counter", "essential_vm::access::predicate_data_len", "essential_vm::access::predicate_data_slots",
    "essential_vm::crypto::recover_secp256k1",
}


def stack_effect(prog, f, seen=None):
    """(pops, pushes, variable?, peeks) of the Stack calls in f (following Stack::select's nested closures)."""
    seen = seen or set()
    pops = pushes = 0
    var = False
    peeks = []
    fns = [f] + prog.find_fns("^" + re.escape(f.path) + r"::\{closure#\d+\}(::\{closure#\d+\})*$")
    for g in fns:
        loops = M.natural_loops(g)
        pv = prog.prov(g)
        for bb, t in g.calls():
            if g.blocks[bb]["cleanup"]:
                continue
            c = M.callee_of(t)
            in_loop = any(bb in body for _, body in loops)
            if PEEKS.search(c) and ("Stack" in " ".join(t.get("arg_tys", [])) or re.search(r"^(self|stack)(\.0)?$", M.render(M.peel(pv.of_operand(t["args"][0]))) if t["args"] else "")):
                peeks.append(c.split("::")[-1])
            if not c.startswith(S_):
                continue
            m = c[len(S_):]
            if m in POPS:
                pops += POPS[m]
                var = var or in_loop
            elif m in POP_PUSH:
                pops += POP_PUSH[m][0]
                pushes += POP_PUSH[m][1]
                var = var or in_loop
            elif m in VAR_POPS:
                var = True
            elif m == "push":
                pushes += 1
                var = var or in_loop
            elif m == "extend":
                ty = M.norm_ty((t.get("arg_tys") or ["", ""])[1])
                mm = re.match(r"^\[i64; (\d+)\]$", ty)
                if mm:
                    pushes += int(mm.group(1))
                else:
                    var = True
    return pops, pushes, var, peeks


def check_stack_effects(ctx, prog, spec, tab, arms):
    ctx.rule("R5", "fixed-arity ops pop len(stack_in) and push len(stack_out) words (asm.yml); op handlers obtain operands only by popping (no peeking at the top of the stack)")
    n = 0
    for op in spec:
        g, v = op["group"], op["name"]
        if v not in FIXED.get(g, []):
            continue
        so = op["stack_out"]
        want_in = len(op["stack_in"])
        want_out = len(so) if isinstance(so, list) else 0
        if (g, v) == ("Crypto", "RecoverSecp256k1"):
            want_in, want_out = 13, 5
        f, arm = arms.get((g, v), (None, None))
        if f is None:
            continue
        pops = pushes = 0
        var = False
        peeks = []
        pv = prog.prov(f)
        handled = False
        for b, t in arm.calls():
            c = M.callee_of(t)
            if c.startswith(S_):
                m = c[len(S_):]
                if m in POPS:
                    pops += POPS[m]
                elif m in POP_PUSH:
                    pops += POP_PUSH[m][0]
                    pushes += POP_PUSH[m][1]
                elif m == "push":
                    pushes += 1
                elif m in VAR_POPS or m == "extend":
                    var = True
                elif c in HANDLER_OF:
                    h = prog.fn(c)
                    a, b_, v_, pk = stack_effect(prog, h)
                    pops, pushes, var, peeks = pops + a, pushes + b_, var or v_, peeks + pk
                    ctx.saw(h)
                handled = True
            elif c in HANDLER_OF:
                h = prog.fn(c)
                a, b_, v_, pk = stack_effect(prog, h)
                pops, pushes, var, peeks = pops + a, pushes + b_, var or v_, peeks + pk
                ctx.saw(h)
                handled = True
            elif c == "essential_vm::repeat::Repeat::repeat":
                handled = True
        if v == "Halt":
            handled = True
        if not handled:
            continue
        n += 1
        # RepeatCounter etc. push through their handler; Select pops cond + 2 and pushes 1
        ok = (not var) and pops == want_in and pushes == want_out and not peeks
        ctx.ob("R5", "%s::%s:stack-effect" % (g, v), ok, arm.where(),
               "handler pops %d word(s) and pushes %d%s%s; asm.yml stack_in %s (%d), stack_out %s (%d)" % (
                   pops, pushes, " (variable)" if var else "", (", peeks: %s" % peeks) if peeks else "", op["stack_in"], want_in, so, want_out), f)
    ctx.floor("R5", "fixed-arity ops whose stack effect was compared with asm.yml", n, 35)
    # operand discipline in every module that implements ops
    bad = []
    mods = r"^essential_vm::(stack::Stack::(load|store|dup_from|swap_index|select|select_range|reserve_zeroed|pop\w*|push|extend)|repeat::repeat|total_control_flow::(jump_if|halt_if)|pred::\w+|access::(predicate_data\w*|this_\w+|repeat_counter|predicate_exists)|crypto::(sha256|verify_ed25519|recover_secp256k1|pop_bytes)|state_read::\w+|sync::step_op_(memory|parent_memory|stack))(::\{closure#\d+\})*$"
    k = 0
    for h in prog.find_fns(mods):
        k += 1
        pvh = prog.prov(h)
        for bb, t in h.calls():
            c = M.callee_of(t)
            if PEEKS.search(c) and t["args"]:
                recv = M.render(M.peel(pvh.of_operand(t["args"][0])))
                tys = " ".join(t.get("arg_tys", [])[:1])
                if re.search(r"^(self|stack)(\.0)?$", recv) or "stack::Stack" in tys:
                    bad.append((h.path, c.split("::")[-1], h.loc(bb)))
    # the one legitimate use: parent_memory.last() reads the parent *memory* stack, not the word stack
    ctx.ob("R5", "operands-are-popped-not-peeked", not bad, bad[0][2] if bad else "crates/vm/src/stack.rs",
           "op handlers reading the word stack without popping: %s (in %d handler functions)" % ([(a, b) for a, b, _ in bad], k))
