"""C07 — gas is accounted exactly and the total limit is never exceeded."""
import re

from .. import cond as C
from .. import mir as M

META = {
    "explanation": "R1 check-before-step: in Vm::exec the call that executes an op is dominated by success of checked_add(running total, cost(op)) filtered by "
                   "`sum <= gas_limit.total`, where cost(op) is OpGasCost::op_gas_cost of the very op handed to step_op; the filter closure is exactly `spent <= limit`. "
                   "R1b every definition of the running total is the constant 0 or the success payload of such a checked-and-limited sum (this covers the gas joined from "
                   "compute children, R3). R2 no raw (panicking/wrapping) arithmetic on u64 gas values anywhere in essential-vm and essential-check: only checked_* / saturating_*. "
                   "R4 children draw on the parent's budget (known finding K1 when the unchanged limit is handed to every child). R5 the checker combines node, solution and pass "
                   "totals with saturating_add only and sums every executed node.",
    "not_decided": "the value statement `reported gas == sum of costs of executed ops` beyond this structure; termination follows from R1 with positive costs informally.",
}

EXEC = "essential_vm::vm::Vm::exec"
CHAIN = re.compile(r"^Option::filter\(u64::checked_add\(var:(\w+), (.*)\), \{closure#\d+\}\)\?$")


def run(ctx):
    prog = ctx.prog
    ctx.rule("R1", "step_op is dominated by success of checked_add(total, op_gas_cost(op)) filtered by `<= gas_limit.total`, for the op it executes")
    ctx.rule("R1b", "every definition of the running gas total is 0 or the payload of a checked, limit-filtered sum (incl. the joined compute gas, R3)")
    ctx.rule("R2", "no unchecked arithmetic on u64 (Gas) values in essential-vm / essential-check")
    ctx.rule("R4", "the limit handed to compute children derives from the parent's limit (never a fresh/unlimited one)")
    ctx.rule("R5", "the checker combines gas totals with saturating_add and counts every executed node")
    f = prog.fn(EXEC)
    if not ctx.anchor("R1", "fn Vm::exec", f):
        return
    ctx.saw(f)
    pv = prog.prov(f)
    steps = [(bb, t) for bb, t in f.calls() if M.callee_of(t) == "essential_vm::sync::step_op"]
    if not ctx.anchor("R1", "call of sync::step_op in Vm::exec", len(steps) == 1, f.loc(0)):
        return
    sbb, st = steps[0]
    op_term = M.render(M.peel(pv.of_operand(st["args"][1])))
    atoms = C.conditions(prog, f, sbb)
    guard = None
    for a in atoms:
        if a.kind == "variant" and a.terms[0] == "ok":
            x = a.terms[1]
            if x.kind == "call" and x.a.endswith("Option::filter") and x.sub and M.peel(x.sub[0]).kind == "call" and M.peel(x.sub[0]).a.endswith("u64>::checked_add"):
                guard = (a, x)
    ctx.ob("R1", "step-dominated-by-checked-limited-sum", guard is not None, f.loc(sbb),
           "conditions dominating step_op: %s" % [a.text[:150] for a in atoms], f)
    if guard:
        a, x = guard
        add = M.peel(x.sub[0])
        lhs, rhs = add.sub[0], M.peel(add.sub[1])
        cost_ok = rhs.kind == "call" and rhs.a.endswith("OpGasCost::op_gas_cost") and len(rhs.sub) > 1 and M.render(M.peel(rhs.sub[1])) == op_term
        ctx.ob("R1", "cost-is-op_gas_cost-of-the-executed-op", cost_ok, f.loc(sbb), "sum adds `%s`; step_op executes `%s`" % (M.render(rhs)[:160], op_term[:120]), f)
        ctx.ob("R1", "sum-adds-to-running-total", lhs.kind == "phi" and lhs.a is not None, f.loc(sbb), "lhs of the sum: %s" % M.render(lhs), f)
        clo = x.sub[1] if len(x.sub) > 1 else None
        check_filter_closure(ctx, prog, f, clo, "step")
    # R1b definitions of the accumulator
    acc = None
    for b in f.blocks:
        for s in b["stmts"]:
            if s["k"] == "assign" and s["rv"]["k"] == "aggr" and s["rv"].get("agg") == "adt" and s["rv"]["variant"] == "Ok" \
                    and M.Place(s["pl"]).is_local() and M.Place(s["pl"]).local == 0:
                t = pv.of_operand(s["rv"]["ops"][0])
                if t.kind == "phi":
                    acc = t
    if ctx.anchor("R1b", "the value returned in Ok(..) by Vm::exec is a running total", acc is not None, f.loc(0)):
        n_checked = 0
        for alt in acc.sub:
            r = M.render(alt)
            if alt.kind == "const" and alt.a == 0:
                ctx.ob("R1b", "def:init-0", True, f.loc(0), "initialised to 0", f)
                continue
            m = CHAIN.match(r)
            ok = bool(m) and m.group(1) == acc.a
            what = "cost-of-op" if ok and "op_gas_cost" in m.group(2) else ("compute-result" if ok and "ComputeResult" in m.group(2) else r[:80])
            if ok:
                n_checked += 1
                inner = alt.sub[0] if alt.kind == "try" else None
                clo = inner.sub[1] if inner is not None and inner.kind == "call" and len(inner.sub) > 1 else None
                check_filter_closure(ctx, prog, f, clo, what)
            ctx.ob("R1b", "def:" + what, ok, f.loc(0), "running total assigned `%s`" % r[:200], f)
        ctx.floor("R1b", "checked definitions of the running total", n_checked, 2)
    # R3: the children's gas is joined on every path through the ComputeResult arm
    ctx.rule("R3", "the gas reported by compute children is added (checked, limit-filtered) on every path through the ComputeResult arm, before the loop is left or continued")
    cfg = f.cfg()
    arms = []
    for b in range(len(f.blocks)):
        if f.term(b)["k"] != "switch" or f.blocks[b]["cleanup"]:
            continue
        base = {a.text for a in C.conditions(prog, f, b)}
        for y in f.succs(b):
            new = [a.text for a in C.conditions(prog, f, y) if a.text not in base]
            if any(re.match(r"^is:ComputeResult\(", a) for a in new):
                arms.append(y)
    if ctx.anchor("R3", "ComputeResult arm of Vm::exec", len(arms) == 1, f.loc(0)):
        y = arms[0]
        region = {x for x in range(len(f.blocks)) if cfg.dominates(y, x)} | {y}
        joins = {bb for bb, t in f.calls() if bb in region and M.callee_of(t).endswith("u64>::checked_add")}
        escaped = []
        seen, todo = {y}, [y]
        while todo:
            x = todo.pop()
            if x in joins:
                continue
            for z in f.succs(x):
                if f.term(z)["k"] == "unreachable":
                    continue
                if z not in region:
                    escaped.append(f.loc(x))
                elif z not in seen:
                    seen.add(z)
                    todo.append(z)
        ctx.ob("R3", "compute-gas-joined-before-leaving-the-arm", len(joins) == 1 and not escaped, f.loc(y),
               "checked additions in the arm: %d; paths that leave the arm before the addition: %s" % (len(joins), escaped[:3]), f)
    # the joined gas is the sum over *all* children (C10 R4)
    if not getattr(ctx, "_src", None):
        from . import C10
        from .C19 import _Only
        C10.run(_Only(ctx, "R4", "R3"))
    # the public entry points hand Vm::exec the caller's limit unchanged (C14 R2: exec_ops / exec_bytecode are forwarding wrappers)
    if not getattr(ctx, "_src", None):
        from . import C14
        from .C19 import _OnlyKeys
        C14.run(_OnlyKeys(ctx, "R2", "R1", r"exec_ops|exec_bytecode|eval"))
    # R2
    n_arith = 0
    for fn in prog.fns_by_crate["essential_vm"] + prog.fns_by_crate["essential_check"]:
        if fn.kind == "Const":
            continue
        for bb, b in enumerate(fn.blocks):
            if b["cleanup"]:
                continue
            for s in b["stmts"]:
                if s["k"] == "assign" and s["rv"]["k"] == "binop" and s["rv"]["aty"] == "u64" and s["rv"]["op"] in (
                        "Add", "Sub", "Mul", "AddWithOverflow", "SubWithOverflow", "MulWithOverflow", "AddUnchecked", "SubUnchecked", "MulUnchecked"):
                    n_arith += 1
                    ctx.ob("R2", "%s|raw-u64-%s" % (fn.path, s["rv"]["op"]), False, fn.loc(bb), "raw `%s` on u64 (gas) values: %s" % (s["rv"]["op"], M.show_rv(s["rv"])), fn)
            t = b["term"]
            if t["k"] == "call":
                c = M.callee_of(t)
                if re.search(r"(<&?u64 as std::ops::(Add|Sub|Mul|AddAssign|SubAssign|MulAssign)(<.*>)?>::|<impl std::ops::(Add|Sub|Mul|AddAssign|SubAssign|MulAssign)(<.*>)? for &?u64>::|"
                             r"std::num::<impl u64>::(wrapping_|overflowing_|unchecked_)(add|sub|mul)|<u64 as std::iter::Sum)", c):
                    n_arith += 1
                    ctx.ob("R2", "%s|%s" % (fn.path, c), False, fn.loc(bb), "unchecked operator `%s` on u64 (gas) values" % c, fn)
                elif re.search(r"^std::iter::Iterator::(sum|product)$|^<.* as std::iter::(Sum|Product)(<.*>)?>::(sum|product)$", c) and "u64" in [M.norm_ty(g) for g in (t.get("gargs") or [])][-1:]:
                    n_arith += 1
                    ctx.ob("R2", "%s|%s" % (fn.path, M.short_path(c)), False, fn.loc(bb), "`%s::<u64>` adds u64 (gas) values with the raw, panicking/wrapping `+`" % c, fn)
                elif re.search(r"std::num::<impl u64>::(checked_|saturating_)(add|sub|mul)$", c):
                    ctx.ob("R2", "%s|%s" % (fn.path, M.short_path(c)), True, fn.loc(bb), "checked/saturating", fn)
    ctx.note("raw u64 arithmetic sites: %d" % n_arith)
    # R4
    cl = [c for c in prog.find_fns(r"^essential_vm::compute::compute::\{closure#\d+\}$")]
    hit = None
    for c in cl:
        for bb, t in c.calls():
            if M.callee_of(t) == EXEC:
                hit = (c, bb, t)
    if ctx.anchor("R4", "child Vm::exec call in compute", hit is not None, "crates/vm/src/compute.rs"):
        c, bb, t = hit
        lim = M.peel(prog.prov(c).of_operand(t["args"][-1]))
        r = M.render(lim)
        unchanged = bool(re.match(r"^\*?\*?<env>\.(_ref__)?gas_limit$", r))
        # Observation K1 (DESIGN.md section 4), not an obligation: after the joined total is re-checked against the
        # limit (R1b) the property's statement holds; handing every child the full limit only amplifies work.
        flows = unchanged
        # resolve the capture to what the parent function passes: it must be the limit the parent itself received
        from .. import access as A
        par = prog.fn(c.parent) if c.parent else None
        src = None
        if unchanged and par is not None:
            env = A.closure_env(prog, par, c)
            x = lim
            while x.kind in ("deref", "ref") and x.sub:
                x = x.sub[0]
            if env is not None and x.kind == "field" and isinstance(x.meta, dict) and x.meta.get("i", 99) < len(env):
                src = env[x.meta["i"]]
                rs = A.norm(M.render(src))
                flows = re.match(r"^\^1\.gas_limit$", rs) is not None
                if not flows and src.kind == "aggr" and str(src.a).endswith("GasLimit"):
                    fields = ((src.meta or {}).get("rv") or {}).get("fields") or []
                    ti = fields.index("total") if "total" in fields else 0
                    flows = ti < len(src.sub) and re.search(r"\^1\.gas_limit\.total", A.norm(M.render(src.sub[ti]))) is not None
                r = "%s = %s" % (r, rs[:120])
            else:
                flows = False
        if not flows and lim.kind == "aggr" and str(lim.a).endswith("GasLimit") and lim.sub:
            # a rebuilt limit: its `total` must be computed from the parent's total (e.g. the remaining budget), not replaced
            fields = ((lim.meta or {}).get("rv") or {}).get("fields") or []
            ti = fields.index("total") if "total" in fields else 0
            tot = M.render(lim.sub[ti]) if ti < len(lim.sub) else ""
            flows = re.search(r"gas_limit\.total", tot) is not None
        ctx.ob("R4", "child-gas-limit-flows-from-parent-limit", flows, c.loc(bb),
               "each compute child is handed `%s`%s" % (r, " (the parent's limit, unchanged: observation K1)" if unchanged else ""), c)
    # R5
    chk = [fn for fn in prog.fns_by_crate["essential_check"] if fn.kind != "Const"]
    sat = [(fn, bb) for fn in chk for bb, t in fn.calls() if M.callee_of(t) == "std::num::<impl u64>::saturating_add"]
    ctx.floor("R5", "saturating gas sums in essential-check", len(sat), 4)
    # every Ok((.., gas)) arm of the node loop adds into the total
    inner = prog.fn("essential_check::solution::check_predicate_inner")
    if ctx.anchor("R5", "fn check_predicate_inner", inner):
        ctx.saw(inner)
        pvi = prog.prov(inner)
        adds = [(bb, t) for bb, t in inner.calls() if M.callee_of(t) == "std::num::<impl u64>::saturating_add"]
        for n, (bb, t) in enumerate(adds):
            lhs = pvi.of_operand(t["args"][0])
            rhs = M.render(M.peel(pvi.of_operand(t["args"][1])))
            dest = M.Place(t["dest"])
            ok = lhs.kind == "phi" and lhs.a is not None and re.search(r" as Ok\)\.0\.1$", rhs) is not None
            ctx.ob("R5", "node-gas-added#%d" % n, ok, inner.loc(bb), "%s.saturating_add(%s)" % (M.render(lhs), rhs[:120]), inner)
        oks = set()
        for bb in range(len(inner.blocks)):
            for a in C.conditions(prog, inner, bb):
                if a.kind == "variant" and a.terms[0] in ("Leaf", "Parent") and " as Ok).0.0" in a.text:
                    oks.add(a.terms[0])
        # within the arm of each node kind (Ok(Parent), Ok(Leaf)), every path to the end of the arm passes through one of those additions
        add_bbs = {bb for bb, _ in adds}
        cfg = inner.cfg()
        arms = []
        for b in range(len(inner.blocks)):
            if inner.term(b)["k"] != "switch" or inner.blocks[b]["cleanup"]:
                continue
            base = {a.text for a in C.conditions(prog, inner, b)}
            for y in inner.succs(b):
                new = [a.text for a in C.conditions(prog, inner, y) if a.text not in base]
                kinds = [m.group(1) for a in new for m in [re.match(r"^is:(Parent|Leaf)\(\(.* as Ok\)\.0\.0\)$", a)] if m]
                if kinds:
                    arms.append((kinds[0], y))
        escaped = []
        for kind, y in arms:
            region = {x for x in range(len(inner.blocks)) if cfg.dominates(y, x)} | {y}
            seen, todo = {y}, [y]
            while todo:
                x = todo.pop()
                if x in add_bbs:
                    continue
                for z in inner.succs(x):
                    if inner.term(z)["k"] == "unreachable":
                        continue
                    if z not in region:
                        escaped.append((kind, inner.loc(x)))
                    elif z not in seen:
                        seen.add(z)
                        todo.append(z)
        ok_path = sorted(k for k, _ in arms) == ["Leaf", "Parent"] and not escaped
        detail = "arms %s; paths that leave an arm without adding the node's gas: %s" % (sorted(k for k, _ in arms), escaped[:3])
        ctx.ob("R5", "every-Ok-node-result-adds-its-gas", ok_path, inner.loc(0), detail, inner)
        ctx.ob("R5", "both-node-kinds-counted", len(adds) >= 2, inner.loc(0), "%d saturating adds for node outputs (Leaf and Parent)" % len(adds), inner)


def check_filter_closure(ctx, prog, f, clo, label):
    ok = False
    detail = "no closure"
    if clo is not None and clo.kind == "aggr" and clo.a.startswith("closure:"):
        cf = prog.fn(clo.a[len("closure:"):])
        cap = M.render(clo.sub[0]) if clo.sub else ""
        if cf is not None:
            cmpx = [s["rv"] for b in cf.blocks for s in b["stmts"] if s["k"] == "assign" and s["rv"]["k"] == "binop"]
            pvc = prog.prov(cf)
            if len(cmpx) == 1 and cmpx[0]["op"] in ("Le", "Ge"):
                a = M.peel(pvc.of_operand(cmpx[0]["a"]))
                b = M.peel(pvc.of_operand(cmpx[0]["b"]))
                if cmpx[0]["op"] == "Ge":
                    a, b = b, a
                ok = a.kind == "param" and a.a != "<env>" and b.kind == "field" and cap.endswith("gas_limit.total")
                detail = "closure computes %s(%s, %s) with capture %s" % (cmpx[0]["op"], M.render(a), M.render(b), cap)
            else:
                detail = "closure body has comparisons %s" % [c["op"] for c in cmpx]
    ctx.ob("R1", "limit-filter-is-`sum <= gas_limit.total`:" + label, ok, f.loc(0), detail, f)
