"""C05 — the VM is total and stays within its resource bounds."""
import re
from .. import bounded as B
from .. import mir as M
from .. import panic as P

META = {
    "all_features": True,
    "explanation": "(a) Panic-path enumeration: over the call-graph closure (resolved callees, closure creation edges, class-hierarchy "
                   "expansion of calls through OpAccess/StateRead/StateReads/OpGasCost) of the VM entry points every panic-capable construct "
                   "(MIR Assert terminators for overflow / bounds / division, calls of panicking std APIs, panic!/unreachable!) is enumerated "
                   "and must be discharged automatically (constant operands, shift guarded by the bound check, `..` indexing, non-zero constant "
                   "divisor) or by a reviewed table line whose recorded guards (dominating conditions) are re-checked on every run. An Assert(Overflow) "
                   "site stands for both build modes: it panics with overflow checks and wraps without. (b) Bounded containers: every function that "
                   "receives &mut to the inner vector of Stack, Memory, Repeat or to Vm.parent_memory is enumerated; growth is only reachable under "
                   "the right strict/non-strict comparison against the right limit constant, whose value must equal the documented bound.",
    "not_decided": "which error is returned; termination (C07); that reviewed table reasons that depend on caller-side facts stay true under "
                   "inter-procedural changes (they are re-checked only for the guards visible in the same body).",
    "trusted_base": ["std callees not listed in the panic table are total (every distinct std callee met is listed in the evidence)",
                     "third-party crates (secp256k1, ed25519-dalek, sha2, rayon) do not panic on the inputs given"],
}

ENTRY = [
    r"^essential_vm::vm::Vm::(exec|exec_ops|exec_bytecode|eval|eval_ops)$",
    r"^essential_vm::sync::step_op(_[a-z_]+)?$",
]


def reachable_fns(ctx, entry_res, min_roots):
    prog = ctx.prog
    roots = []
    for rx in entry_res:
        roots += [f.path for f in prog.find_fns(rx)]
    ctx.floor("PANIC", "entry points found", len(roots), min_roots)
    reach, parent = prog.reachable_from(roots)
    fns = [prog.fns[p] for p in sorted(reach)]
    return roots, fns


def run(ctx):
    prog = ctx.prog
    ctx.rule("PANIC", "every panic-capable construct reachable from Vm::{exec,eval,..}/step_op* is auto-discharged or a reviewed table line whose guards still dominate it")
    ctx.rule("RB", "writers of the bounded vectors are confined; growth only under the right comparison with the right limit constant (4096/10240/4096/1)")
    ctx.rule("RV", "no non-compute step function constructs OpError::Compute / OpError::StateRead (backs the unreachable!() in from_infallible)")
    roots, fns = reachable_fns(ctx, ENTRY, 14)
    sites, n_auto, n_tab = P.decide_sites(ctx, "PANIC", prog, fns, label="VM")
    ctx.floor("PANIC", "functions reachable from the VM entry points", len(fns), 200)
    ctx.floor("PANIC", "panic-capable constructs enumerated", len(sites), 90)
    std = sorted({M.callee_of(t) for f in fns for _, t in f.calls() if t.get("res_crate") in ("core", "std", "alloc") or t.get("callee_crate") in ("core", "std", "alloc")})
    ctx.note("std callees in the reachable set (presumed total unless in the panic table): %d distinct" % len(std))
    ctx.note("; ".join(std)[:6000])
    # reviewed table lines whose reason cites a construction-time validation (C14 R1/R3: every recorded op
    # index was parsed successfully by try_from_bytes): the cited rule instances are re-evaluated here
    from . import C14
    from .C19 import _Only
    ctx.rule("RC", "construction-time validation that the reviewed `expect`s of expect_ops_from_indices rely on (C14 R1/R3): an op index is recorded only for an opcode that was parsed together with its operand bytes; and the join arithmetic that the `expect` of compute_effects relies on (C10 R4)")
    C14.run(_Only(ctx, "R1", "RC"))
    C14.run(_Only(ctx, "R3", "RC"))
    # `store_range(..).expect(..)` in compute_effects: the write pointer stays inside the block allocated just before (C10 R4)
    from . import C10
    C10.run(_Only(ctx, "R4", "RC"))
    # (b)
    total = 0
    for (label, adt, field, limit, doc) in B.CONTAINERS:
        n = B.check_container(ctx, "RB", prog, label, adt, field, limit, doc) or 0
        total += n
    total += B.check_typed_vec(ctx, "RB", prog, *B.DEPTH)
    # the depth counter travels with the VM: step_op hands compute a clone of the executing VM's parent-memory stack
    from .. import access as A_
    from .C19 import _OnlyKeys
    A_.compute_inputs_wiring(_OnlyKeys(ctx, "RB", "RB", r"parent_memory|one-ComputeInputs|fn step_op"), "RB")
    ctx.floor("RB", "writer sites of bounded vectors", total, 20)
    # RB3: every Vm aggregate outside compute gives parent_memory an empty/default value -- covered by check_container('compute-depth')
    # RV
    non_compute = [f for f in prog.find_fns(r"^essential_vm::sync::step_op_(access|alu|crypto|parent_memory|pred|stack|total_control_flow|memory)$")]
    ctx.floor("RV", "non-compute step functions", len(non_compute), 8)
    reach, _ = prog.reachable_from([f.path for f in non_compute])
    bad = []
    for p in sorted(reach):
        f = prog.fns[p]
        for bb, b in enumerate(f.blocks):
            for st in b["stmts"]:
                if st["k"] == "assign" and st["rv"]["k"] == "aggr" and st["rv"].get("agg") == "adt" \
                        and M.strip_generics(st["rv"]["adt"]) == "essential_vm::error::OpError" and st["rv"]["variant"] in ("Compute", "StateRead"):
                    # from_infallible itself holds the unreachable!() arms; the From<Infallible> impl cannot be called with a value.
                    # Any other conversion that builds these variants (e.g. From<ComputeError>, reached through `?`) counts.
                    if f.path.endswith("OpError::from_infallible") or re.search(r"OpError<.*> as std::convert::From<std::convert::Infallible>", f.path):
                        continue
                    bad.append((f, bb, st["rv"]["variant"]))
    ctx.ob("RV", "no-compute-or-stateread-error-in-infallible-families", not bad,
           bad[0][0].loc(bad[0][1]) if bad else "crates/vm/src/sync.rs",
           "constructions of OpError::Compute/StateRead reachable from non-compute step functions: %s" % [(f.path, v) for f, _, v in bad])
