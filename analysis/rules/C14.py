"""C14 — mapped bytecode is equivalent to the parsed operation list."""
import re

from .. import cond as C
from .. import expect as E
from .. import mir as M

META = {
    "explanation": "R1 one parser: BytecodeMapped::try_from_bytes decides acceptance only through Opcode::try_from (T1 of C13) and ParseOp::parse_op (T4) on the same byte iterator - the two functions "
                   "Op::try_from_bytes uses - with both errors propagated by `?`; it has exactly these two rejecting paths and returns Ok only at the end of the input. R2 wrappers are pure: "
                   "exec_ops / exec_bytecode / eval_ops consist of one forwarding call; the TryFrom impls forward to try_from_bytes. R3 the index table is written only by validated constructors: "
                   "the writers of `op_indices` / `bytecode` (private fields) are try_from_bytes (pushes the offset of each accepted opcode byte after parse_op succeeded), push_op (pushes bytecode.len() "
                   "before extending with to_bytes), Default and FromIterator (via push_op). This justifies the expects in expect_ops_from_indices (C05/C06). R4 access paths agree: op(ix) is the first "
                   "element of ops_from(ix); OpAccess for &BytecodeMapped is op(ix).map(Ok); OpAccess for &[Op] is get(ix).cloned().map(Ok); Arc<T> delegates.",
    "not_decided": "equality of final machine states / gas / errors between the two execution paths as a behavioural fact (follows from R2 + R4 + C13 informally).",
}

B = "essential_vm::bytecode::"
NEXT = "(<std::iter::Enumerate<I> as std::iter::Iterator>::next(std::iter::Iterator::enumerate(slice::iter(bytes))) as Some).0"


def run(ctx):
    prog = ctx.prog
    for r, t in [("R1", "one parser: acceptance decided by Opcode::try_from and ParseOp::parse_op only"), ("R2", "wrappers forward"), ("R3", "index table written only by validated constructors"),
                 ("R4", "access paths agree")]:
        ctx.rule(r, t)
    # both execution paths decode immediates with the generated ParseOp::parse_op; that it decides on the bytes alone
    # (fails only when next() runs dry, never on a size hint) is what makes streaming and slice parsing agree (C13 O5)
    if not getattr(ctx, "_src", None):
        from . import C13
        from .C19 import _Only
        ctx.rule("R5", "the shared operand parser decides on the bytes alone: an op with an immediate fails only when the iterator runs dry (C13 O5)")
        C13.run(_Only(ctx, "O5", "R5"))
    f = prog.fn(B + "BytecodeMapped::try_from_bytes")
    if ctx.anchor("R1", "fn try_from_bytes", f):
        ctx.saw(f)
        tab = M.return_table(prog, f)
        errs = [at[-1] for _, v, at in tab if v == "<propagate error>"]
        ok = len(errs) == 2 and errs[0].startswith("err(std::convert::TryFrom::try_from(%s.1))" % NEXT) and errs[1].startswith("err(essential_asm::opcode::ParseOp::parse_op(std::convert::TryFrom::try_from(%s.1)?, " % NEXT)
        ctx.ob("R1", "exactly-two-rejecting-paths", ok, "%s:%d" % (f.file, f.line), "error paths: %s" % [e[:140] for e in errs], f)
        oks = [(v, at) for _, v, at in tab if v.startswith("Result::Ok")]
        ctx.ob("R1", "Ok-only-at-end-of-input", len(oks) == 1 and oks[0][1] == ["is:None(<std::iter::Enumerate<I> as std::iter::Iterator>::next(std::iter::Iterator::enumerate(slice::iter(bytes))))"],
               "%s:%d" % (f.file, f.line), "Ok under %s" % [a[:100] for _, at in oks for a in at], f)
        E.has_call(ctx, "R1", "immediates-read-from-the-same-iterator", prog, f, r"ParseOp::parse_op$",
                   [r"^std::convert::TryFrom::try_from\(.*\.0\.1\)\?$", r"^std::iter::Iterator::map\(std::iter::Iterator::by_ref\(std::iter::Iterator::enumerate\(slice::iter\(bytes\)\)\), \{closure#0\}\)$"])
        for c in prog.closures_of(f):
            r = M.render(prog.prov(c).of_local(0))
            ctx.ob("R1", "byte-adaptor-is-identity", r in ("arg2.1", "*arg2.1") or r.endswith(".1"), c.loc(0), "closure returns %s" % r, c)
        # R3 (a): push of the opcode offset, after parse_op succeeded
        pushes = [(bb, a) for bb, c, a in E.calls(prog, f, keep=r"Vec::push$")]
        ok = len(pushes) == 1 and pushes[0][1][1] == NEXT + ".0"
        at = [a.text for a in C.conditions(prog, f, pushes[0][0])] if pushes else []
        ctx.ob("R3", "try_from_bytes:pushes-offset-of-accepted-opcode", ok and any(a.startswith("ok(essential_asm::opcode::ParseOp::parse_op(") for a in at), f.loc(pushes[0][0]) if pushes else f.loc(0),
               "push(%s) under %s" % (pushes[0][1][1][-60:] if pushes else None, [a[:60] for a in at[-2:]]), f)
        ag = [v for _, v in E.aggregates(prog, f, "BytecodeMapped")]
        ctx.ob("R3", "try_from_bytes:result=(input bytes, collected indices)", len(ag) == 1 and ag[0].startswith("essential_vm::bytecode::BytecodeMapped::BytecodeMapped{bytes, Vec::with_capacity("), f.loc(0), "builds %s" % [a[:120] for a in ag], f)
    # the same two functions are what Op::try_from_bytes uses (C13-O7)
    g = prog.fn("<essential_asm::op::Op as essential_asm::op::TryFromBytes>::try_from_bytes")
    if ctx.anchor("R1", "fn Op::try_from_bytes", g):
        t1 = [c for _, c, _ in E.calls(prog, g, keep=r"TryFrom<u8>>::try_from$")]
        inner = [c for cl in prog.closures_of(g) for _, c, _ in E.calls(prog, cl, keep=r"ParseOp>::parse_op$")]
        ctx.ob("R1", "list-parser-uses-the-same-two-functions", t1 == ["<essential_asm::opcode::Op as std::convert::TryFrom<u8>>::try_from"] and inner == ["<essential_asm::opcode::Op as essential_asm::opcode::ParseOp>::parse_op"],
               "%s:%d" % (g.file, g.line), "Op::try_from_bytes calls %s then %s" % (t1, inner), g)
    # ---- R2 ---------------------------------------------------------------
    for name, target, args in [("exec_ops", "exec", ["self", "access", "state_reads", "ops", "op_gas_cost", "gas_limit"]),
                               ("exec_bytecode", "exec", ["self", "access", "state_reads", "bytecode_mapped", "op_gas_cost", "gas_limit"]),
                               ("eval_ops", "eval", ["self", "ops", "access", "state", "op_gas_cost", "gas_limit"])]:
        w = prog.fn("essential_vm::vm::Vm::" + name)
        if ctx.anchor("R2", "fn Vm::" + name, w):
            cs = E.calls(prog, w)
            ok = len(cs) == 1 and cs[0][1] == "essential_vm::vm::Vm::" + target and cs[0][2] == args and not [b for b in range(len(w.blocks)) if w.term(b)["k"] == "switch"]
            ctx.ob("R2", name + "=one-forwarding-call", ok, "%s:%d" % (w.file, w.line), "calls %s" % [(c, a) for _, c, a in cs], w)
    for w in prog.find_fns(r"^<essential_vm::bytecode::BytecodeMapped<Op.*> as std::convert::TryFrom<.*>>::try_from$"):
        cs = E.calls(prog, w)
        ctx.ob("R2", "TryFrom:%s=try_from_bytes" % re.sub(r".*TryFrom<(.*)>>::try_from", r"\1", w.path), len(cs) == 1 and cs[0][1] == B + "BytecodeMapped::try_from_bytes" and cs[0][2] == ["bytecode"],
               "%s:%d" % (w.file, w.line), "calls %s" % [(c, a) for _, c, a in cs], w)
        ctx.saw(w)
    # ---- R3 ---------------------------------------------------------------
    adt = prog.adts.get(B + "BytecodeMapped")
    if ctx.anchor("R3", "struct BytecodeMapped", adt):
        flds = adt["variants"][0]["fields"]
        ctx.ob("R3", "fields-private", all(x["vis"].startswith("Restricted") for x in flds), "crates/vm/src/bytecode.rs:%d" % adt["span"]["line"], "visibilities %s" % [(x["name"], x["vis"][:12]) for x in flds])
    writers = set()
    for fn in prog.fns.values():
        if fn.crate != "essential_vm" or fn.kind == "Const":
            continue
        if fn.exp and re.search(r"as std::(clone::Clone|cmp::PartialEq|fmt::Debug)>::", fn.path):
            continue
        pv = None
        for bb, b in enumerate(fn.blocks):
            for st in b["stmts"]:
                if st["k"] != "assign":
                    continue
                rv = st["rv"]
                if rv["k"] == "aggr" and rv.get("agg") == "adt" and M.strip_generics(rv["adt"]) == B + "BytecodeMapped":
                    writers.add(fn.path)
                if rv["k"] == "ref" and rv.get("mut"):
                    for p in rv["pl"]["p"]:
                        if p["k"] == "field" and p.get("of") == B + "BytecodeMapped" and p["name"] in ("op_indices", "bytecode"):
                            writers.add(fn.path)
                for p in st["pl"]["p"]:
                    if p["k"] == "field" and p.get("of") == B + "BytecodeMapped" and p["name"] in ("op_indices", "bytecode"):
                        writers.add(fn.path)
    allowed = {B + "BytecodeMapped::try_from_bytes", B + "BytecodeMapped::push_op", "<essential_vm::bytecode::BytecodeMapped<Op> as std::default::Default>::default",
               "<essential_vm::bytecode::BytecodeMapped<Op> as std::iter::FromIterator<Op>>::from_iter"}
    ctx.ob("R3", "writers-of-the-index-table", writers == allowed, "crates/vm/src/bytecode.rs", "functions constructing BytecodeMapped or taking &mut to its fields: %s; validated constructors: %s" % (sorted(writers), sorted(allowed)))
    p = prog.fn(B + "BytecodeMapped::push_op")
    if ctx.anchor("R3", "fn push_op", p):
        cs = E.calls(prog, p)
        seq = [(c.split("::")[-1], a) for _, c, a in cs if re.search(r"Vec::push$|Extend<T>>::extend$", c)]
        ok = seq == [("push", ["self.op_indices", "Vec::len(self.bytecode)"]), ("extend", ["self.bytecode", "essential_asm::op::ToBytes::to_bytes(op)"])]
        ctx.ob("R3", "push_op:index=len-before-extend;bytes=to_bytes(op)", ok, "%s:%d" % (p.file, p.line), "writes %s" % seq, p)
    fi = prog.one_fn(r"^<essential_vm::bytecode::BytecodeMapped<Op> as std::iter::FromIterator<Op>>::from_iter$")
    if ctx.anchor("R3", "FromIterator for BytecodeMapped", fi):
        inner = [(c, a) for cl in prog.closures_of(fi) for _, c, a in E.calls(prog, cl)]
        ctx.ob("R3", "from_iter:via-push_op", [c for c, _ in inner] == [B + "BytecodeMapped::push_op"], "%s:%d" % (fi.file, fi.line), "closure calls %s" % inner, fi)
        ag = [v for _, v in E.aggregates(prog, fi, "BytecodeMapped")]
        ctx.ob("R3", "from_iter:starts-empty", len(ag) == 1 and re.match(r"^essential_vm::bytecode::BytecodeMapped::BytecodeMapped\{Vec::with_capacity\(.*\), Vec::with_capacity\(.*\), ", ag[0]) is not None, fi.loc(0), "starts from %s" % [a[:140] for a in ag], fi)
    # ---- R4 ---------------------------------------------------------------
    o = prog.fn(B + "BytecodeMapped::op")
    if ctx.anchor("R4", "fn BytecodeMapped::op", o):
        cs = [(c, a) for _, c, a in E.calls(prog, o)]
        want = [(B + "BytecodeMapped::ops_from", ["self", "ix"]), (B + "BytecodeMappedSlice::ops", [B + "BytecodeMapped::ops_from(self, ix)?"]),
                ("<std::iter::Map<I, F> as std::iter::Iterator>::next", [B + "BytecodeMappedSlice::ops(" + B + "BytecodeMapped::ops_from(self, ix)?)"])]
        ctx.ob("R4", "op(ix)=first-of-ops_from(ix)", cs == want, "%s:%d" % (o.file, o.line), "calls %s" % cs, o)
        ctx.saw(o)
    of = prog.fn(B + "BytecodeMapped::ops_from")
    if ctx.anchor("R4", "fn ops_from", of):
        ag = [v for _, v in E.aggregates(prog, of, "BytecodeMappedSlice")]
        ctx.ob("R4", "ops_from=(all bytes, indices[start..])", ag == [B + "BytecodeMappedSlice::BytecodeMappedSlice{" + B + "BytecodeMapped::bytecode(self), slice::get(self.op_indices, std::ops::RangeFrom::RangeFrom{start})?, self._op_ty}"],
               "%s:%d" % (of.file, of.line), "builds %s" % ag, of)
        ctx.saw(of)
    for name in ("BytecodeMapped::ops", "BytecodeMappedSlice::ops"):
        g = prog.fn(B + name)
        if ctx.anchor("R4", "fn " + name, g):
            E.has_call(ctx, "R4", name + "=expect_ops_from_indices(bytes, indices-in-order)", prog, g, r"expect_ops_from_indices$",
                       [r"^(essential_vm::bytecode::BytecodeMapped::bytecode\(self\)|self\.bytecode)$", r"^std::iter::Iterator::copied\(slice::iter\(self\.op_indices\)\)$"])
    ex = prog.fn(B + "expect_ops_from_indices::{closure#0}")
    if ctx.anchor("R4", "closure of expect_ops_from_indices", ex):
        E.has_call(ctx, "R4", "op-at-index=Op::try_from_bytes(bytecode[ix..])", prog, ex, r"TryFromBytes::try_from_bytes$",
                   [r"^std::iter::Iterator::copied\(slice::iter\(std::slice::index::<impl std::ops::Index<I> for \[T\]>::index\(<env>\._ref__bytecode, std::ops::RangeFrom::RangeFrom\{ix\}\)\)\)$"])
    for path, want in [("<&essential_vm::bytecode::BytecodeMapped<Op, Bytes> as essential_vm::op_access::OpAccess>::op_access",
                        [(B + "BytecodeMapped::op", ["self", "index"]), ("std::option::Option::map", [B + "BytecodeMapped::op(self, index)", "fn:std::result::Result::Ok"])]),
                       ("<&[Op] as essential_vm::op_access::OpAccess>::op_access",
                        [("std::slice::<impl [T]>::get", ["self", "index"]), ("std::option::Option::cloned", ["slice::get(self, index)"]), ("std::option::Option::map", ["Option::cloned(slice::get(self, index))", "fn:std::result::Result::Ok"])]),
                       ("<std::sync::Arc<T> as essential_vm::op_access::OpAccess>::op_access", [("essential_vm::op_access::OpAccess::op_access", ["self", "index"])])]:
        g = prog.fn(path)
        if ctx.anchor("R4", "fn " + path[:40], g):
            cs = [(c, a) for _, c, a in E.calls(prog, g)]
            ctx.ob("R4", "OpAccess:" + re.sub(r"<(.*) as .*", r"\1", path)[:40], cs == want, "%s:%d" % (g.file, g.line), "calls %s" % cs, g)
            ctx.saw(g)
    # the accessor handed to step_op / compute children is a clone of the same accessor
    x = prog.fn("essential_vm::vm::Vm::exec")
    if ctx.anchor("R4", "fn Vm::exec", x):
        E.has_call(ctx, "R4", "ops-fetched-at-pc-from-the-accessor", prog, x, r"OpAccess::op_access$", ["^op_access$", r"^self\.pc$"])
        E.has_call(ctx, "R4", "compute-gets-a-clone-of-the-same-accessor", prog, x, r"sync::step_op$", ["", "", "^self$", "^state_reads$", r"^std::clone::Clone::clone\(op_access\)$"])
