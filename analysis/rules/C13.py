"""C13 — bytecode encoding is a bijection that matches the assembly specification."""
import json
import os
import re

from .. import facts as F
from .. import mir as M
from .. import tables as T

META = {
    "all_features": True,
    "explanation": "The codec is table-driven generated code, so the property reduces to agreement of finite tables, decided exactly. Oracle: asm.yml "
                   "read independently with PyYAML plus the pinned opcode table. Tables recovered from the MIR of crate essential_asm: T1 TryFrom<u8> (byte -> opcode variant, "
                   "otherwise -> InvalidOpcodeError(byte)); T2 From<opcode> for u8 and the enum discriminants; T3 ToBytes (op variant -> bytes_iter variant{index 0, [opcode, imm..]}) "
                   "and the generated Iterator::next of every bytes_iter enum; T4 ParseOp::parse_op (opcode variant -> op variant, number of bytes consumed, NotEnoughBytesError); "
                   "T5 ToOpcode; T6 short constants. O1 domain of T1 = spec opcodes, injective; O2 T1(b) names the spec op with opcode b; O3 T2 o T1 = id and discriminants = opcodes; "
                   "O4 T3(v)[0] = opcode(v) and len = 1 + num_arg_bytes, immediates = bytes_from_word(payload) in order; O5 T4 consumes exactly num_arg_bytes via next() and yields v "
                   "with word_from_bytes of the bytes in order; O6 bytes_from_word/word_from_bytes are to_be_bytes/from_be_bytes; O7 streaming functions add no decision; O8 short names; "
                   "O9 pinned table unchanged. O1-O7 give both round-trip directions and unambiguity: parse(serialise(ops)) = ops since T4(T5(v)) = v consumes exactly what T3 emits, and "
                   "serialise(parse(bytes)) = bytes since T1 is injective with T2 its inverse and immediates are copied bytewise.",
    "not_decided": "nothing value-level remains for this property beyond the trusted base (rustc's lowering of the generated match tables).",
    "trusted_base": ["PyYAML's reading of asm.yml", "tables/opcodes_pinned.json (the 62 triples of the pinned commit)"],
}

GROUP_IMPL = {
    "T1": "<essential_asm::opcode::%s as std::convert::TryFrom<u8>>::try_from",
    "T2": "essential_asm::opcode::<impl std::convert::From<essential_asm::opcode::%s> for u8>::from",
    "T3": "<essential_asm::op::%s as essential_asm::op::ToBytes>::to_bytes",
    "T3n": "<essential_asm::op::bytes_iter::%s as std::iter::Iterator>::next",
    "T4": "<essential_asm::opcode::%s as essential_asm::opcode::ParseOp>::parse_op",
    "T5": "<essential_asm::op::%s as essential_asm::op::ToOpcode>::to_opcode",
}


def run(ctx):
    prog = ctx.prog
    repo = ctx.repo
    spec = T.load_spec(repo)
    for r, txt in [("O1", "T1's domain is exactly the spec's opcode set and T1 is injective; every other byte -> InvalidOpcodeError(byte)"),
                   ("O2", "T1(b) names the spec op with opcode b (group and top-level tables)"),
                   ("O3", "T2 o T1 = id; enum discriminants equal the spec opcodes"),
                   ("O4", "T3(v) = [opcode(v), immediates..] with length 1 + num_arg_bytes; immediates are bytes_from_word(payload) in order; bytes_iter yields bytes[index] then index += 1"),
                   ("O5", "T4 maps opcode variant to the op variant of the same name, consumes exactly num_arg_bytes (next() calls), None -> NotEnoughBytesError, payload = word_from_bytes in order"),
                   ("O6", "immediates are 8 big-endian bytes both ways (to_be_bytes / from_be_bytes)"),
                   ("O7", "streaming functions add no decision: from_bytes = from_fn(Op::try_from_bytes); try_from_bytes = next -> T1 -> T4; to_bytes = flat_map(T3)"),
                   ("O8", "short constants: spec short name (or upper-cased name) denotes the spec op"),
                   ("O9", "every pinned (path, opcode, num_arg_bytes, short) triple is still present and unchanged")]:
        ctx.rule(r, txt)
    ctx.floor("O1", "operations in asm.yml", len(spec), 62)
    # O10: the second byte-level reader of the same encoding (effects::bytes_contains_any) agrees with the codec on which
    # opcodes carry immediates and how many bytes they span (C15 R3, re-evaluated here: sibling decoders must agree)
    from . import C15
    from .C19 import _Only
    ctx.rule("O10", "the byte-level effects scanner skips exactly num_arg_bytes after each opcode that carries an immediate (C15 R3)")
    C15.run(_Only(ctx, "R3", "O10"))
    groups = {}
    for op in spec:
        if len(op["path"]) != 3 or op["path"][0] != "Op":
            ctx.ob("O1", "spec-shape:" + "/".join(op["path"]), False, "crates/asm-spec/asm.yml", "unexpected nesting %s" % op["path"])
            continue
        groups.setdefault(op["group"], []).append(op)
    by_opcode = {}
    for op in spec:
        if op["opcode"] in by_opcode:
            ctx.ob("O1", "spec-unique-opcode:%#x" % op["opcode"], False, "crates/asm-spec/asm.yml", "opcode used twice: %s and %s" % (by_opcode[op["opcode"]]["name"], op["name"]))
        by_opcode[op["opcode"]] = op

    # ---- top level T1 ----------------------------------------------------
    f = prog.fn(GROUP_IMPL["T1"] % "Op")
    if ctx.anchor("O1", "TryFrom<u8> for opcode::Op", f):
        ctx.saw(f)
        sw = T.entry_switch(f)
        seen_vals = set()
        if ctx.anchor("O1", "switch in TryFrom<u8> for opcode::Op", sw is not None, f.loc(0)):
            d = prog.prov(f).of_operand(f.term(sw)["discr"])
            ctx.ob("O1", "Op:scrutinee-is-the-byte", M.peel(d, casts=True).kind == "param", f.loc(sw), "switch on %r" % d, f)
            for arm in T.arms_of(f, sw):
                if arm.value is None:
                    ags = arm.aggregates()
                    ok = any(a == "essential_asm::opcode::InvalidOpcodeError" for a, v, rv, st in ags) and any(
                        a == "std::result::Result" and v == "Err" for a, v, rv, st in ags)
                    payload_ok = False
                    for a, v, rv, st in ags:
                        if a == "essential_asm::opcode::InvalidOpcodeError":
                            p = M.peel(prog.prov(f).of_operand(rv["ops"][0]), casts=True)
                            payload_ok = p.kind == "param"
                    ctx.ob("O1", "Op:otherwise->InvalidOpcodeError(byte)", ok and payload_ok, arm.where(), "otherwise arm builds %s" % [(a, v) for a, v, _, _ in ags], f)
                    continue
                seen_vals.add(arm.value)
                op = by_opcode.get(arm.value)
                ags = [(a, v) for a, v, _, _ in arm.aggregates()]
                if op is None:
                    ctx.ob("O1", "Op:byte-%#04x-not-in-spec" % arm.value, False, arm.where(), "byte %#x is accepted but is not an opcode of asm.yml: builds %s" % (arm.value, ags), f)
                    continue
                want = [("essential_asm::opcode::%s" % op["group"], op["name"]), ("essential_asm::opcode::Op", op["group"])]
                ctx.ob("O2", "Op:T1[%#04x]=%s::%s" % (arm.value, op["group"], op["name"]), ags == want, arm.where(), "arm builds %s, spec wants %s" % (ags, want), f)
            for op in spec:
                ctx.ob("O1", "Op:T1-accepts-%s::%s" % (op["group"], op["name"]), op["opcode"] in seen_vals, f.loc(sw), "opcode %#x %s" % (op["opcode"], "accepted" if op["opcode"] in seen_vals else "MISSING from TryFrom<u8>"), f)

    # ---- per group -------------------------------------------------------
    for g, ops in sorted(groups.items()):
        names = {o["name"]: o for o in ops}
        by_code = {o["opcode"]: o for o in ops}
        # T2' discriminants
        vs = T.enum_variants(prog, "essential_asm::opcode::" + g)
        if ctx.anchor("O3", "enum opcode::" + g, vs):
            got = {n: d for n, vi, d, _ in vs}
            for o in ops:
                ctx.ob("O3", "%s::%s:discriminant" % (g, o["name"]), got.get(o["name"]) == o["opcode"], "crates/asm/src/lib.rs",
                       "discriminant %s, spec opcode %#x" % (got.get(o["name"]), o["opcode"]))
            extra = sorted(set(got) - set(names))
            ctx.ob("O1", "%s:no-extra-opcode-variants" % g, not extra, "crates/asm/src/lib.rs", "variants not in spec: %s" % extra)
        ovs = T.enum_variants(prog, "essential_asm::op::" + g)
        if ctx.anchor("O4", "enum op::" + g, ovs):
            gotn = [n for n, vi, d, _ in ovs]
            ctx.ob("O1", "%s:op-variants=spec" % g, sorted(gotn) == sorted(names), "crates/asm/src/lib.rs", "op::%s variants %s vs spec %s" % (g, gotn, sorted(names)))
            for n, vi, d, fields in ovs:
                o = names.get(n)
                if o:
                    want = 1 if o["num_arg_bytes"] else 0
                    ctx.ob("O4", "%s::%s:payload-arity" % (g, n), len(fields) == want and (want == 0 or fields[0]["ty"] == "i64") and o["num_arg_bytes"] in (0, 8), "crates/asm/src/lib.rs",
                           "variant has %d field(s) %s; spec num_arg_bytes=%d" % (len(fields), [x["ty"] for x in fields], o["num_arg_bytes"]))
        # T1 group
        f = prog.fn(GROUP_IMPL["T1"] % g)
        if ctx.anchor("O1", "TryFrom<u8> for opcode::" + g, f):
            ctx.saw(f)
            sw = T.entry_switch(f)
            accepted = set()
            for arm in (T.arms_of(f, sw) if sw is not None else []):
                ags = [(a, v) for a, v, _, _ in arm.aggregates()]
                if arm.value is None:
                    ctx.ob("O1", "%s:otherwise->InvalidOpcodeError" % g, ("essential_asm::opcode::InvalidOpcodeError", "InvalidOpcodeError") in ags and ("std::result::Result", "Err") in ags,
                           arm.where(), "otherwise arm builds %s" % ags, f)
                    continue
                accepted.add(arm.value)
                o = by_code.get(arm.value)
                ctx.ob("O2", "%s:T1[%#04x]" % (g, arm.value), o is not None and ags == [("essential_asm::opcode::" + g, o["name"])], arm.where(),
                       "arm builds %s; spec: %s" % (ags, o["name"] if o else "byte not an opcode of group %s" % g), f)
            ctx.ob("O1", "%s:T1-domain" % g, accepted == set(by_code), f.loc(0), "accepted %s, spec %s" % (sorted(accepted), sorted(by_code)), f)
        # T2
        f = prog.fn(GROUP_IMPL["T2"] % g)
        if ctx.anchor("O3", "From<opcode::%s> for u8" % g, f):
            ctx.saw(f)
            sw = T.entry_switch(f)
            cnt = 0
            for arm in (T.arms_of(f, sw) if sw is not None else []):
                if arm.value is None:
                    ctx.ob("O3", "%s:T2-otherwise-unreachable" % g, arm.is_unreachable(), arm.where(), "otherwise arm must be unreachable", f)
                    continue
                name = T.discr_to_variant(prog, "essential_asm::opcode::" + g, arm.value)
                cs = arm.consts_assigned(0)
                o = names.get(name)
                cnt += 1
                ctx.ob("O3", "%s::%s:T2" % (g, name), o is not None and cs == [o["opcode"]], arm.where(), "u8::from(%s) = %s, spec %s" % (name, cs, o and hex(o["opcode"])), f)
            ctx.ob("O3", "%s:T2-covers-all" % g, cnt == len(ops), f.loc(0), "%d arms for %d ops" % (cnt, len(ops)), f)
        # T3
        f = prog.fn(GROUP_IMPL["T3"] % g)
        if ctx.anchor("O4", "ToBytes for op::" + g, f):
            ctx.saw(f)
            pv = prog.prov(f)
            sw = T.entry_switch(f)
            cnt = 0
            for arm in (T.arms_of(f, sw) if sw is not None else []):
                if arm.value is None:
                    ctx.ob("O4", "%s:T3-otherwise-unreachable" % g, arm.is_unreachable(), arm.where(), "", f)
                    continue
                name = T.discr_to_variant(prog, "essential_asm::op::" + g, arm.value, by="vi")
                o = names.get(name)
                cnt += 1
                ok = False
                detail = ""
                for a, v, rv, st in arm.aggregates():
                    if a == "essential_asm::op::bytes_iter::" + g:
                        idx = M.const_int(rv["ops"][0])
                        arr = pv.of_operand(rv["ops"][1])
                        elems = list(arr.sub) if arr.kind == "aggr" else []
                        detail = "%s{index=%s, bytes=%s}" % (v, idx, [M.render(e)[:60] for e in elems])
                        if o is None or v != name or idx != 0 or not elems:
                            break
                        first = M.peel(elems[0], casts=True)
                        ok = first.kind == "const" and first.a == o["opcode"] and len(elems) == 1 + o["num_arg_bytes"]
                        for i, e in enumerate(elems[1:]):
                            e = M.peel(e, casts=True)
                            good = (e.kind == "index" and e.a == str(i) and e.sub and M.peel(e.sub[0]).kind == "call"
                                    and M.peel(e.sub[0]).a == "essential_types::convert::bytes_from_word")
                            if good:
                                src = M.peel(M.peel(e.sub[0]).sub[0], transparent=True)
                                good = src.kind == "field" and src.sub and src.sub[0].kind == "variant" and src.sub[0].a == name
                            ok = ok and good
                ctx.ob("O4", "%s::%s:T3" % (g, name), ok, arm.where(), "to_bytes builds %s; spec opcode %s, %s immediate byte(s)" % (
                    detail, o and hex(o["opcode"]), o and o["num_arg_bytes"]), f)
            ctx.ob("O4", "%s:T3-covers-all" % g, cnt == len(ops), f.loc(0), "%d arms for %d ops" % (cnt, len(ops)), f)
        # T3n bytes_iter::next
        f = prog.fn(GROUP_IMPL["T3n"] % g)
        if ctx.anchor("O4", "Iterator for bytes_iter::" + g, f):
            ctx.saw(f)
            check_bytes_iter_next(ctx, prog, f, g, names)
        # T4
        f = prog.fn(GROUP_IMPL["T4"] % g)
        if ctx.anchor("O5", "ParseOp for opcode::" + g, f):
            ctx.saw(f)
            sw = T.entry_switch(f)
            cnt = 0
            for arm in (T.arms_of(f, sw) if sw is not None else []):
                if arm.value is None:
                    ctx.ob("O5", "%s:T4-otherwise-unreachable" % g, arm.is_unreachable(), arm.where(), "", f)
                    continue
                name = T.discr_to_variant(prog, "essential_asm::opcode::" + g, arm.value)
                o = names.get(name)
                cnt += 1
                ags = arm.aggregates()
                built = [(a, v) for a, v, _, _ in ags if a == "essential_asm::op::" + g]
                calls = [M.callee_of(t) for _, t in arm.calls()]
                if o is not None and o["num_arg_bytes"] == 0:
                    ok = built == [("essential_asm::op::" + g, name)] and not [c for c in calls if "next" in c or "parse_word_bytes" in c]
                    ctx.ob("O5", "%s::%s:T4" % (g, name), ok, arm.where(), "builds %s, calls %s; spec: no immediate" % (built, calls), f)
                else:
                    ok = o is not None and built == [("essential_asm::op::" + g, name)]
                    pw = [c for c in calls if c.endswith("parse_word_bytes")]
                    wf = [c for c in calls if c == "essential_types::convert::word_from_bytes"]
                    neb = any(a == "essential_asm::opcode::NotEnoughBytesError" for a, v, _, _ in ags)
                    # payload provenance: word_from_bytes(ok(parse_word_bytes(bytes)))
                    pay_ok = False
                    for a, v, rv, st in ags:
                        if a == "essential_asm::op::" + g and rv["ops"]:
                            p = M.peel(prog.prov(f).of_operand(rv["ops"][0]))
                            if p.kind == "call" and p.a == "essential_types::convert::word_from_bytes" and p.sub:
                                q = M.peel(p.sub[0])
                                pay_ok = q.kind == "try" and M.peel(q.sub[0]).kind == "call" and M.peel(q.sub[0]).a.endswith("parse_word_bytes")
                    # the arm itself fails only when parse_word_bytes does
                    arm_rows = [(v, at) for _, v, at in M.return_table(prog, f) if any(a == "is:%s(self)" % name for a in at)]
                    extra = [(v[:60], at[-1][:80]) for v, at in arm_rows if not (v.startswith("Result::Ok{") or (v == "<propagate error>" and re.search(r"^err\(.*parse_word_bytes\(", at[-1])))]
                    ctx.ob("O5", "%s::%s:T4-fails-only-when-the-immediate-is-short" % (g, name), len(arm_rows) == 2 and not extra, arm.where(), "returns of the arm: %s" % [(v[:40], at[-1][:60]) for v, at in arm_rows], f)
                    ctx.ob("O5", "%s::%s:T4" % (g, name), ok and len(pw) == 1 and len(wf) == 1 and neb and pay_ok, arm.where(),
                           "builds %s; parse_word_bytes calls=%d word_from_bytes calls=%d NotEnoughBytesError=%s payload-ok=%s" % (built, len(pw), len(wf), neb, pay_ok), f)
                    for h in prog.find_fns(re.escape(f.path) + r"::parse_word_bytes$"):
                        check_parse_word_bytes(ctx, prog, h, g, name, o["num_arg_bytes"] if o else 8)
            ctx.ob("O5", "%s:T4-covers-all" % g, cnt == len(ops), f.loc(0), "%d arms for %d ops" % (cnt, len(ops)), f)
        # T5
        f = prog.fn(GROUP_IMPL["T5"] % g)
        if ctx.anchor("O4", "ToOpcode for op::" + g, f):
            ctx.saw(f)
            sw = T.entry_switch(f)
            for arm in (T.arms_of(f, sw) if sw is not None else []):
                if arm.value is None:
                    continue
                name = T.discr_to_variant(prog, "essential_asm::op::" + g, arm.value, by="vi")
                built = [(a, v) for a, v, _, _ in arm.aggregates()]
                ctx.ob("O4", "%s::%s:T5" % (g, name), built == [("essential_asm::opcode::" + g, name)], arm.where(), "to_opcode(%s) builds %s" % (name, built), f)

    # ---- top-level delegation tables (Op) ----------------------------------
    for key, rule, inner_tpl in [("T3", "O4", "<essential_asm::op::%s as essential_asm::op::ToBytes>::to_bytes"),
                                 ("T4", "O5", "<essential_asm::opcode::%s as essential_asm::opcode::ParseOp>::parse_op"),
                                 ("T5", "O4", "<essential_asm::op::%s as essential_asm::op::ToOpcode>::to_opcode")]:
        f = prog.fn(GROUP_IMPL[key] % "Op")
        if not ctx.anchor(rule, "%s for Op" % key, f):
            continue
        ctx.saw(f)
        sw = T.entry_switch(f)
        adt = "essential_asm::op::Op" if key != "T4" else "essential_asm::opcode::Op"
        n = 0
        for arm in (T.arms_of(f, sw) if sw is not None else []):
            if arm.value is None:
                continue
            gname = T.discr_to_variant(prog, adt, arm.value, by="vi")
            calls = [M.callee_of(t) for _, t in arm.calls() if "essential_asm" in M.callee_of(t) and "from_residual" not in M.callee_of(t)]
            n += 1
            ctx.ob(rule, "Op::%s:%s-delegates" % (gname, key), calls[:1] == [inner_tpl % gname], arm.where(), "arm for group %s calls %s" % (gname, calls), f)
        ctx.ob(rule, "Op:%s-covers-groups" % key, n == len(groups), f.loc(0), "%d arms for %d groups" % (n, len(groups)), f)
    f = prog.fn(GROUP_IMPL["T3n"] % "Op")
    if ctx.anchor("O4", "Iterator for bytes_iter::Op", f):
        ctx.saw(f)
        sw = T.entry_switch(f)
        for arm in (T.arms_of(f, sw) if sw is not None else []):
            if arm.value is None:
                continue
            gname = T.discr_to_variant(prog, "essential_asm::op::bytes_iter::Op", arm.value, by="vi")
            calls = [M.callee_of(t) for _, t in arm.calls()]
            ctx.ob("O4", "bytes_iter::Op::%s:next-delegates" % gname, calls == [GROUP_IMPL["T3n"] % gname], arm.where(), "calls %s" % calls, f)

    # ---- O6 endianness -----------------------------------------------------
    for fnname, callee in [("essential_types::convert::bytes_from_word", "std::num::<impl i64>::to_be_bytes"),
                           ("essential_types::convert::word_from_bytes", "std::num::<impl i64>::from_be_bytes")]:
        f = prog.fn(fnname)
        if ctx.anchor("O6", fnname, f):
            ctx.saw(f)
            calls = [M.callee_of(t) for _, t in f.calls()]
            arg_ok = False
            for _, t in f.calls():
                a = M.peel(prog.prov(f).of_operand(t["args"][0]))
                arg_ok = a.kind == "param"
            ctx.ob("O6", fnname.split("::")[-1], calls == [callee] and arg_ok, "%s:%d" % (f.file, f.line), "calls %s on its parameter (%s)" % (calls, arg_ok), f)

    # ---- O7 streaming functions -------------------------------------------
    check_streaming(ctx, prog)

    # ---- O8 short names ----------------------------------------------------
    n = 0
    for op in spec:
        cname = op["short"] or op["name"].upper()
        c = prog.fn("essential_asm::op::short::" + cname)
        if not ctx.ob("O8", "short:%s" % cname, c is not None, "crates/asm/src/lib.rs", "constant short::%s %s" % (cname, "found" if c else "MISSING")):
            continue
        n += 1
        if op["num_arg_bytes"]:
            # fn pointer to a constructor
            h = prog.fn("essential_asm::op::short::%s::%s" % (cname.lower(), cname.lower()))
            built = [(M.strip_generics(st["rv"]["adt"]), st["rv"]["variant"]) for b in (h.blocks if h else []) for st in b["stmts"]
                     if st["k"] == "assign" and st["rv"]["k"] == "aggr" and st["rv"].get("agg") == "adt"]
        else:
            built = [(M.strip_generics(st["rv"]["adt"]), st["rv"]["variant"]) for b in c.blocks for st in b["stmts"]
                     if st["k"] == "assign" and st["rv"]["k"] == "aggr" and st["rv"].get("agg") == "adt"]
        want = [("essential_asm::op::" + op["group"], op["name"]), ("essential_asm::op::Op", op["group"])]
        ctx.ob("O8", "short:%s=%s::%s" % (cname, op["group"], op["name"]), built == want, "crates/asm/src/lib.rs", "builds %s, spec wants %s" % (built, want), c)
    allshort = [p for p in prog.fns if p.startswith("essential_asm::op::short::") and prog.fns[p].kind == "Const"]
    ctx.ob("O8", "short:no-extra-constants", len(allshort) == len(spec), "crates/asm/src/lib.rs", "%d short constants for %d ops" % (len(allshort), len(spec)))

    # ---- O9 pinned table ---------------------------------------------------
    with open(os.path.join(F.VERIF, "tables", "opcodes_pinned.json")) as fh:
        pinned = json.load(fh)["ops"]
    cur = {"/".join(o["path"]): o for o in spec}
    for p in pinned:
        o = cur.get(p["path"])
        ok = o is not None and o["opcode"] == p["opcode"] and o["num_arg_bytes"] == p["num_arg_bytes"] and (o["short"] or "") == (p["short"] or "")
        ctx.ob("O9", "pinned:" + p["path"], ok, "crates/asm-spec/asm.yml", "pinned (%#x, %d, %s); now %s" % (
            p["opcode"], p["num_arg_bytes"], p["short"], o and (hex(o["opcode"]), o["num_arg_bytes"], o["short"])))
    ctx.floor("O9", "pinned triples", len(pinned), 62)


def check_bytes_iter_next(ctx, prog, f, g, names):
    """Every variant arm: yields *bytes.get(index)? and then index += 1 (front to back, each byte once)."""
    pv = prog.prov(f)
    sw = T.entry_switch(f)
    if sw is None:
        ctx.anchor("O4", "switch in bytes_iter::%s::next" % g, False, f.loc(0))
        return
    for arm in T.arms_of(f, sw):
        if arm.value is None:
            continue
        name = T.discr_to_variant(prog, "essential_asm::op::bytes_iter::" + g, arm.value, by="vi")
        gets = [t for _, t in arm.calls() if M.callee_of(t) == "std::slice::<impl [T]>::get"]
        get_ok = False
        for t in gets:
            recv = M.peel(pv.of_operand(t["args"][0]))
            ix = M.peel(pv.of_operand(t["args"][1]))
            get_ok = (recv.kind == "field" and recv.a == "bytes" and ix.kind == "field" and ix.a == "index")
        # index increment by one
        inc_ok = False
        for b, st in arm.stmts():
            pl = M.Place(st["pl"])
            tgt = M.peel(pv.of_place(pl)) if pl.proj else None
            if tgt is not None and tgt.kind == "field" and tgt.a == "index":
                v = pv.of_rvalue(st["rv"])
                # `index = (index + 1).0` after the overflow assert
                txt = M.render(v)
                inc_ok = bool(re.match(r"^AddWithOverflow\(.*\.index, 1\)\.0$", txt)) or bool(re.match(r"^Add\(.*\.index, 1\)$", txt))
        ctx.ob("O4", "bytes_iter::%s::%s:next" % (g, name), len(gets) == 1 and get_ok and inc_ok, arm.where(),
               "gets=%d get(bytes,index)=%s index+=1=%s" % (len(gets), get_ok, inc_ok), f)


def check_parse_word_bytes(ctx, prog, h, g, name, n):
    """The helper takes exactly n bytes with n next() calls, each `?`-propagated, and returns them in order."""
    ctx.saw(h)
    nexts = [(bb, t) for bb, t in h.calls() if M.callee_decl(t) == "std::iter::Iterator::next"]
    pv = prog.prov(h)
    order_ok = False
    for b in h.blocks:
        for st in b["stmts"]:
            if st["k"] == "assign" and st["rv"]["k"] == "aggr" and st["rv"].get("agg") == "array" and len(st["rv"]["ops"]) == n:
                elems = [pv.of_operand(o) for o in st["rv"]["ops"]]
                # each element is the `?` of a distinct next() call, in call order
                ids = []
                for e in elems:
                    e = M.peel(e)
                    if e.kind == "try" and e.meta is not None:
                        inner = e.meta  # the Try::branch call terminator
                        src = M.op_place(inner["args"][0])
                        ids.append(src.local if src is not None else None)
                call_dests = [M.Place(t["dest"]).local for _, t in sorted(nexts, key=lambda x: x[0])]
                order_ok = ids == call_dests and len(set(ids)) == n
    ctx.ob("O5", "%s::%s:immediate-bytes" % (g, name), len(nexts) == n and order_ok, "%s:%d" % (h.file, h.line),
           "%d next() calls for %d immediate bytes; in-order=%s" % (len(nexts), n, order_ok), h)
    # "not enough bytes" is decided only by the iterator running dry (never by a size hint or another pre-check)
    rows = M.return_table(prog, h)
    bad = [(v[:60], (at[-1] if at else "")[:80]) for _, v, at in rows
           if not ((v == "<propagate error>" and at and re.match(r"^err\(std::iter::Iterator::next\(\w+\)\)$", at[-1])) or (v.startswith("Option::Some{array{") and all(re.match(r"^ok\(std::iter::Iterator::next\(\w+\)\)$", a) for a in at)))]
    ctx.ob("O5", "%s::%s:short-input-detected-only-by-next()=None" % (g, name), not bad and len(rows) == n + 1, "%s:%d" % (h.file, h.line), "other returns: %s" % bad, h)


def check_streaming(ctx, prog):
    f = prog.fn("essential_asm::from_bytes")
    if ctx.anchor("O7", "asm::from_bytes", f):
        ctx.saw(f)
        calls = [M.callee_of(t) for _, t in f.calls()]
        cl = prog.closures_of(f)
        inner = [M.callee_of(t) for c in cl for _, t in c.calls()]
        ok = any(c.endswith("iter::from_fn") for c in calls) and inner == ["<essential_asm::op::Op as essential_asm::op::TryFromBytes>::try_from_bytes"] \
            and not [b for c in cl for b in range(len(c.blocks)) if c.term(b)["k"] == "switch"]
        ctx.ob("O7", "from_bytes=from_fn(Op::try_from_bytes)", ok, "%s:%d" % (f.file, f.line), "calls %s; closure calls %s" % (calls, inner), f)
    f = prog.fn("essential_asm::to_bytes")
    if ctx.anchor("O7", "asm::to_bytes", f):
        ctx.saw(f)
        calls = [M.callee_of(t) for _, t in f.calls()]
        cl = prog.closures_of(f)
        inner = [M.callee_of(t) for c in cl for _, t in c.calls()]
        ok = any(c.endswith("Iterator::flat_map") for c in calls) and inner == ["<essential_asm::op::Op as essential_asm::op::ToBytes>::to_bytes"]
        ctx.ob("O7", "to_bytes=flat_map(Op::to_bytes)", ok, "%s:%d" % (f.file, f.line), "calls %s; closure calls %s" % (calls, inner), f)
    f = prog.fn("<essential_asm::op::Op as essential_asm::op::TryFromBytes>::try_from_bytes")
    if ctx.anchor("O7", "Op::try_from_bytes", f):
        ctx.saw(f)
        calls = [M.callee_decl(t) if not t.get("res") else M.callee_of(t) for _, t in f.calls()]
        core = [c for c in calls if not re.search(r"ops::(Try|FromResidual)", c)]
        cl = prog.closures_of(f)
        inner = [M.callee_of(t) for c in cl for _, t in c.calls()]
        ok = core[:2] == ["std::iter::Iterator::next", "<essential_asm::opcode::Op as std::convert::TryFrom<u8>>::try_from"] \
            and any(c.endswith("Result::and_then") for c in core) \
            and inner[:1] == ["<essential_asm::opcode::Op as essential_asm::opcode::ParseOp>::parse_op"]
        # the byte given to T1 is the byte just read
        pv = prog.prov(f)
        arg_ok = False
        for _, t in f.calls():
            if M.callee_of(t) == "<essential_asm::opcode::Op as std::convert::TryFrom<u8>>::try_from":
                a = M.peel(pv.of_operand(t["args"][0]))
                arg_ok = a.kind == "try" and M.peel(a.sub[0]).kind == "call" and "Iterator" in M.peel(a.sub[0]).a
        ctx.ob("O7", "try_from_bytes=next->T1->T4", ok and arg_ok, "%s:%d" % (f.file, f.line), "calls %s; closure %s; byte-flows=%s" % (core, inner, arg_ok), f)
