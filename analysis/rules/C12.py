"""C12 — access and crypto ops expose solution data and agree with the hash/sign crates."""
import re

from .. import cond as C
from .. import expect as E
from .. import mir as M

META = {
    "explanation": "R1 source routing: ThisAddress reads this_solution().predicate_to_solve.predicate, ThisContractAddress reads ....contract, PredicateData* read this_solution().predicate_data, "
                   "PredicateExists receives access.solutions (the whole set); the words pushed are word_4_from_u8_32 of the 32 bytes. R2 range resolution is checked: slot and range come from "
                   "usize::try_from + checked_add, the words from slice.get(range) (never indexing), and a failure of any step is an error. R3 sibling encodings agree: the VM's secp256k1 key encoding and "
                   "sign::encode::public_key are the same structure (32 bytes -> 4 words, last byte at index 7 of a zeroed 8-byte word); the 9-word signature layout matches what recover_secp256k1 pops "
                   "(recovery id, then 8 signature words, then 4 hash words); every SHA-256 user calls new/update(input)/finalize only; bytes_from_word/word_from_bytes are big-endian (C13-O6). "
                   "R4 PredicateExists pre-image order: per slot `len, words..`, then contract, then predicate, all through bytes_from_word. R5 unrecoverable signatures give five zero words.",
    "not_decided": "(R6 decides how byte operands are taken: ceil(len/8) words, big-endian bytes in order, cut to len; and the VerifyEd25519 operand wiring.) cryptographic correctness (trusted crates).",
    "trusted_base": ["sha2, secp256k1, ed25519-dalek"],
}

A = "essential_vm::access::"
TS = r"^essential_vm::access::Access::this_solution\(access\)"


def run(ctx):
    prog = ctx.prog
    for r, t in [("R1", "source routing of access ops"), ("R2", "checked range resolution"), ("R3", "sibling encodings agree"), ("R4", "PredicateExists pre-image order"), ("R5", "five zero words on recovery failure"),
                 ("R6", "byte operands of Sha256 / VerifyEd25519: ceil(len/8) words are taken, expanded big-endian in stack order and cut to len bytes; VerifyEd25519 operand order and result")]:
        ctx.rule(r, t)
    r6(ctx, prog)
    d = prog.fn("essential_vm::sync::step_op_access")
    if ctx.anchor("R1", "fn step_op_access", d):
        E.has_call(ctx, "R1", "ThisAddress<-this_solution()", prog, d, r"access::this_address$", [TS + "$", "^stack$"])
        E.has_call(ctx, "R1", "ThisContractAddress<-this_solution()", prog, d, r"access::this_contract_address$", [TS + "$", "^stack$"])
        E.has_call(ctx, "R1", "PredicateData<-this_solution().predicate_data", prog, d, r"access::predicate_data$", [TS + r"\.predicate_data$", "^stack$"])
        E.has_call(ctx, "R1", "PredicateDataLen<-this_solution().predicate_data", prog, d, r"access::predicate_data_len$", [TS + r"\.predicate_data$", "^stack$"])
        E.has_call(ctx, "R1", "PredicateDataSlots<-this_solution().predicate_data", prog, d, r"access::predicate_data_slots$", ["^stack$", TS + r"\.predicate_data$"])
        E.has_call(ctx, "R1", "PredicateExists<-all-solutions", prog, d, r"access::predicate_exists$", ["^stack$", r"^access\.solutions$", "^cache$"])
        E.has_call(ctx, "R1", "RepeatCounter<-repeat", prog, d, r"access::repeat_counter$", ["^stack$", "^repeat$"])
    from .. import access as AX
    AX.run_program_access(ctx, "R1")
    ts = prog.fn("essential_vm::access::Access::this_solution")
    if ctx.anchor("R1", "fn Access::this_solution", ts):
        E.has_call(ctx, "R1", "this_solution=solutions[index]", prog, ts, r"slice::<impl \[T\]>::get$", [r"^self\.solutions$", r"^self\.index$"])
    for name, fld in [("this_address", "predicate"), ("this_contract_address", "contract")]:
        f = prog.fn(A + name)
        if ctx.anchor("R1", "fn " + name, f):
            E.has_call(ctx, "R1", name + ":words", prog, f, r"convert::word_4_from_u8_32$", [r"^solution\.predicate_to_solve\.%s\.0$" % fld])
            E.has_call(ctx, "R1", name + ":pushes-exactly-those-words", prog, f, r"stack::Stack::extend$", ["^stack$", r"^essential_types::convert::word_4_from_u8_32\(solution\.predicate_to_solve\.%s\.0\)$" % fld])
    f = prog.fn(A + "predicate_data_slots")
    if ctx.anchor("R1", "fn predicate_data_slots", f):
        E.has_call(ctx, "R1", "slots=len(predicate_data)", prog, f, r"stack::Stack::push$", ["^stack$", r"^int::try_from\(slice::len\(predicate_data\)\)\?$"])
    # ---- R2 ---------------------------------------------------------------
    POP = r"essential_vm::stack::Stack::pop\(stack\)\?"
    f = prog.fn(A + "predicate_data")
    if ctx.anchor("R2", "fn predicate_data", f):
        # three pops in order len, value_ix, slot_ix: distinguish by the error closure attached
        pv = prog.prov(f)
        order = []
        for bb, c, args in E.calls(prog, f, keep=r"Result::map_err$"):
            m = re.match(r"^essential_vm::stack::Stack::pop\(stack\)$", args[0])
            if m:
                clo = prog.fn(f.path + "::" + args[1])
                ags = [st["rv"]["variant"] for b in (clo.blocks if clo else []) for st in b["stmts"] if st["k"] == "assign" and st["rv"]["k"] == "aggr" and st["rv"].get("agg") == "adt"]
                order.append(ags[0] if ags else "?")
        ctx.ob("R2", "predicate_data:pop-order=len,value_ix,slot_ix", order == ["PredDataLen", "PredDataValueIx", "PredDataSlotIx"], "%s:%d" % (f.file, f.line), "pops tagged %s" % order, f)
        rows = [(v, at[-1] if at else "") for _, v, at in M.return_table(prog, f)]
        errs = [l for v, l in rows if v == "<propagate error>"]
        kinds = sorted(re.sub(r"^err\((?:essential_vm::|int::)?([\w:]+)\(.*$", r"\1", l) for l in errs)
        want_k = sorted(["stack::Stack::pop"] * 3 + ["try_from", "access::range_from_start_len", "access::resolve_predicate_data_range", "stack::Stack::extend"])
        ctx.ob("R2", "predicate_data:fails-only-where-a-pop,the-range,the-lookup-or-the-push-fails", len(rows) == 8 and kinds == want_k and sum(1 for v, _ in rows if v.startswith("Result::Ok{")) == 1,
               "%s:%d" % (f.file, f.line), "failing returns propagate from %s; other returns %s" % (kinds, [v[:40] for v, _ in rows if v != "<propagate error>"]), f)
        E.has_call(ctx, "R2", "predicate_data:range-checked", prog, f, r"access::range_from_start_len$", ["^%s$" % POP, "^%s$" % POP])
        E.has_call(ctx, "R2", "predicate_data:resolved-by-get", prog, f, r"access::resolve_predicate_data_range$",
                   ["^this_predicate_data$", r"^int::try_from\(%s\)\?$" % POP, r"^essential_vm::access::range_from_start_len\(%s, %s\)\?$" % (POP, POP)])
        E.has_call(ctx, "R2", "predicate_data:pushes-exactly-the-resolved-words", prog, f, r"stack::Stack::extend$",
                   ["^stack$", r"^std::iter::Iterator::copied\(slice::iter\(essential_vm::access::resolve_predicate_data_range\(.*\)\?\)\)$"])
        # which popped word is start and which is len: range_from_start_len(value_ix, len): second pop is start, first pop is len
        ok = pop_identity(prog, f, r"access::range_from_start_len$") == [1, 0]
        ctx.ob("R2", "predicate_data:range=(value_ix,len)", ok, "%s:%d" % (f.file, f.line), "range_from_start_len receives (2nd popped, 1st popped): %s" % pop_identity(prog, f, r"access::range_from_start_len$"), f)
    f = prog.fn(A + "range_from_start_len")
    if ctx.anchor("R2", "fn range_from_start_len", f):
        got = [v for _, v in E.aggregates(prog, f, "Some")]
        S, L = "Result::ok(int::try_from(start))?", "Result::ok(int::try_from(len))?"
        ctx.ob("R2", "range=start..start+len,checked", got == ["Option::Some{std::ops::Range::Range{%s, usize::checked_add(%s, %s)?}}" % (S, S, L)], "%s:%d" % (f.file, f.line), "returns %s" % got, f)
    f = prog.fn(A + "resolve_predicate_data_range")
    if ctx.anchor("R2", "fn resolve_predicate_data_range", f):
        E.has_call(ctx, "R2", "slot-by-get", prog, f, r"slice::<impl \[T\]>::get$", ["^predicate_data$", "^slot_ix$"])
        E.has_call(ctx, "R2", "words-by-get(range)", prog, f, r"slice::<impl \[T\]>::get$", [r"^slice::get\(predicate_data, slot_ix\)\?$", r"Clone>::clone\(value_range_ix\)$"])
        idx = [c for _, c, _ in E.calls(prog, f) if re.search(r"ops::Index", c)]
        rows = [(v, at) for _, v, at in M.return_table(prog, f) if v != "<propagate error>"]
        want = r"^Option::ok_or\(slice::get\(slice::get\(predicate_data, slot_ix\)\?, <std::ops::Range<Idx> as std::clone::Clone>::clone\(value_range_ix\)\), essential_vm::error::AccessError::PredicateDataValueRangeOutOfBounds\{"
        ctx.ob("R2", "every-result-is-the-checked-sub-slice", len(rows) == 1 and re.match(want, rows[0][0]) is not None and rows[0][1] == ["ok(slice::get(predicate_data, slot_ix))"], "%s:%d" % (f.file, f.line),
               "results: %s" % [(v[:90], at) for v, at in rows], f)
        ctx.ob("R2", "no-indexing", not idx, "%s:%d" % (f.file, f.line), "index calls %s" % idx, f)
    f = prog.fn(A + "resolve_predicate_data_len")
    if ctx.anchor("R2", "fn resolve_predicate_data_len", f):
        E.has_call(ctx, "R2", "len:slot-by-get", prog, f, r"slice::<impl \[T\]>::get$", ["^predicate_data$", "^slot_ix$"])
    # ---- R3 ---------------------------------------------------------------
    # the sign crate (the op's sibling) recovers a key exactly where secp256k1 does (C19 R6): the VM op and
    # essential_sign::recover_* then agree on which signatures yield a key
    if not getattr(ctx, "_src", None):
        from . import C19 as C19_
        C19_.acceptance_tables(ctx, prog, "R3")
    rec = prog.fn("essential_vm::crypto::recover_secp256k1")
    enc = prog.fn("essential_sign::encode::public_key")
    if ctx.anchor("R3", "fn recover_secp256k1 / sign::encode::public_key", rec and enc):
        ctx.saw(rec)
        ctx.saw(enc)
        for who, f, src in [("vm", rec, "secp256k1::key::PublicKey::serialize("), ("sign", enc, "secp256k1::key::PublicKey::serialize(pk)")]:
            w4 = [a for _, c, a in E.calls(prog, f, keep=r"convert::word_4_from_u8_32$") if "PublicKey::serialize" in a[0]]
            ok4 = len(w4) == 1 and w4[0][0].endswith("[0..32]") or (len(w4) == 1 and re.search(r"\[0\.\.-1\]$|\[0\.\.32\]$", w4[0][0]) is not None)
            ctx.ob("R3", "pubkey(%s):first-32-bytes->4-words" % who, bool(ok4), "%s:%d" % (f.file, f.line), "word_4_from_u8_32(%s)" % [a[0][-40:] for a in w4], f)
            # last byte stored at constant index 7 of a zeroed [u8; 8], then word_from_bytes
            pv = prog.prov(f)
            stores = []
            for bb, b in enumerate(f.blocks):
                for st in b["stmts"]:
                    if st["k"] == "assign":
                        pl = M.Place(st["pl"])
                        if pl.proj and pl.proj[-1]["k"] in ("cindex", "index") and f.local_ty(pl.local) == "[u8; 8]":
                            ix = pl.proj[-1].get("off")
                            if ix is None:
                                ix = M.const_int({"k": "const"}) if False else M.render(pv.of_local(pl.proj[-1]["l"]))
                            stores.append((str(ix), M.render(pv.of_rvalue(st["rv"]))))
            ok = len(stores) == 1 and stores[0][0] == "7" and re.search(r"PublicKey::serialize\(.*\)\[(32|-1)\]$", stores[0][1]) is not None
            ctx.ob("R3", "pubkey(%s):33rd-byte-at-index-7-of-zeroed-word" % who, ok, "%s:%d" % (f.file, f.line), "byte stores into the [u8; 8]: %s" % stores, f)
            wf = [a for _, c, a in E.calls(prog, f, keep=r"convert::word_from_bytes$")]
            ctx.ob("R3", "pubkey(%s):last-word=word_from_bytes" % who, len(wf) == 1 and wf[0][0] == "repeat{0}", "%s:%d" % (f.file, f.line), "word_from_bytes%s" % wf, f)
        # order pushed by the VM: 4 words then the 5th
        ext = [(bb, a) for bb, c, a in E.calls(prog, rec, keep=r"stack::Stack::(extend|push)$")]
        ok = len(ext) == 3 and any("word_4_from_u8_32" in a[1] for _, a in ext) and any(a[1] == "essential_types::convert::word_from_bytes(repeat{0})" for _, a in ext)
        order = [("w4" if "word_4_from_u8_32" in a[1] else ("w1" if "word_from_bytes" in a[1] else "zeros")) for _, a in sorted(ext)]
        ctx.ob("R3", "vm-pushes-4-words-then-the-5th", ok and order.index("w4") < order.index("w1") and rec.cfg().dominates(sorted(ext)[order.index("w4")][0], sorted(ext)[order.index("w1")][0]) if ok else False,
               "%s:%d" % (rec.file, rec.line), "pushes %s" % order, rec)
        # what recover pops vs what sign::encode::signature produces
        pops = [c.split("::")[-1] for _, c, a in E.calls(prog, rec, keep=r"stack::Stack::pop\w*$")]
        ctx.ob("R3", "recover:pops(id, 8 sig words, 4 hash words)", pops == ["pop", "pop8", "pop4"], "%s:%d" % (rec.file, rec.line), "pops %s" % pops, rec)
        E.has_call(ctx, "R3", "recover:signature=u8_64_from_word_8(pop8)", prog, rec, r"RecoverableSignature::from_compact$", [r"^essential_types::convert::u8_64_from_word_8\(essential_vm::stack::Stack::pop8\(stack\)\?\)$", r"RecoveryId as std::convert::TryFrom<i32>>::try_from\(.*Stack::pop\(stack\)\?\)\?\)\?$"])
        E.has_call(ctx, "R3", "recover:message=from_digest(u8_32_from_word_4(pop4))", prog, rec, r"secp256k1::Message::from_digest$", [r"^essential_types::convert::u8_32_from_word_4\(essential_vm::stack::Stack::pop4\(stack\)\?\)$"])
    sg = prog.fn("essential_sign::encode::signature")
    if ctx.anchor("R3", "fn sign::encode::signature", sg):
        E.has_call(ctx, "R3", "signature:8-words-from-the-64-bytes", prog, sg, r"convert::word_8_from_u8_64$", [r"^secp256k1::ecdsa::recovery::RecoverableSignature::serialize_compact\(sig\)\.1$"])
        pv = prog.prov(sg)
        stores = []
        for bb, b in enumerate(sg.blocks):
            for st in b["stmts"]:
                if st["k"] == "assign":
                    pl = M.Place(st["pl"])
                    if pl.proj and pl.proj[-1]["k"] in ("cindex", "index") and sg.local_ty(pl.local) == "[i64; 9]":
                        ix = pl.proj[-1].get("off")
                        if ix is None:
                            t_ = pv.of_local(pl.proj[-1]["l"])
                            ix = t_.a if t_.kind == "const" else M.render(t_)
                        stores.append((ix, M.render(pv.of_rvalue(st["rv"]))))
        ctx.ob("R3", "signature:recovery-id-is-word-8", len(stores) == 1 and stores[0][0] == 8 and
               re.match(r"^int::from\(<T as std::convert::Into<U>>::into\(secp256k1::ecdsa::recovery::RecoverableSignature::serialize_compact\(sig\)\.0\)\)$", stores[0][1]) is not None, "%s:%d" % (sg.file, sg.line), "stores into the 9-word array: %s" % stores, sg)
        E.has_call(ctx, "R3", "signature:words-0..8", prog, sg, r"copy_from_slice$", [r"index_mut\(repeat\{0\}, std::ops::RangeTo::RangeTo\{8\}\)$", r"^essential_types::convert::word_8_from_u8_64\("])
    for fname, data_rx in [("essential_vm::crypto::sha256", r"^essential_vm::crypto::pop_bytes\(stack\)\?$"), ("essential_vm::access::sha256", r"^bytes$")]:
        f = prog.fn(fname)
        if ctx.anchor("R3", "fn " + fname, f):
            dig = [(c.split("::")[-1], a) for _, c, a in E.calls(prog, f, keep=r"digest::Digest")]
            ok = [d[0] for d in dig] == ["new", "update", "finalize"] and re.search(data_rx, dig[1][1][1]) is not None
            ctx.ob("R3", fname.split("::", 1)[1] + ":new-update(input)-finalize", ok, "%s:%d" % (f.file, f.line), "digest calls %s" % [(d[0], [x[:60] for x in d[1][1:]]) for d in dig], f)
    from .. import hashing as HX
    HX.hash_bytes_exact(ctx, "R3")
    f = prog.fn("essential_vm::crypto::sha256")
    if f:
        E.has_call(ctx, "R3", "Sha256:pushes-the-4-hash-words", prog, f, r"stack::Stack::extend$", ["^stack$", r"^essential_types::convert::word_4_from_u8_32\(<T as std::convert::Into<U>>::into\(<D as digest::digest::Digest>::finalize\("])
    # ---- R4 ---------------------------------------------------------------
    f = prog.fn(A + "init_predicate_exists::{closure#0}")
    if ctx.anchor("R4", "pre-image closure of init_predicate_exists", f):
        ctx.saw(f)
        h = [a for _, c, a in E.calls(prog, f, keep=r"access::sha256$")]
        want = ("std::iter::Iterator::collect(std::iter::Iterator::flat_map(std::iter::Iterator::chain(std::iter::Iterator::chain(std::iter::Iterator::flat_map(slice::iter(d.predicate_data), {closure#0}), "
                "essential_types::convert::word_4_from_u8_32(d.predicate_to_solve.contract.0)), essential_types::convert::word_4_from_u8_32(d.predicate_to_solve.predicate.0)), fn:essential_types::convert::bytes_from_word))")
        ctx.ob("R4", "pre-image=slots,contract,predicate->bytes", len(h) == 1 and h[0][0] == want, "%s:%d" % (f.file, f.line), "sha256(%s)" % (h[0][0][:400] if h else None), f)
        g = prog.fn(f.path + "::{closure#0}")
        if ctx.anchor("R4", "per-slot closure", g):
            r = M.render(prog.prov(g).of_local(0))
            want = "std::iter::Iterator::chain(<std::option::Option<T> as std::iter::IntoIterator>::into_iter(Option::Some{(Vec::len(slot) as i64)}), std::iter::Iterator::cloned(slice::iter(slot)))"
            ctx.ob("R4", "slot=len-then-words", r == want, "%s:%d" % (g.file, g.line), "slot pre-image %s" % r[:300], g)
    f = prog.fn(A + "init_predicate_exists")
    if ctx.anchor("R4", "fn init_predicate_exists", f):
        E.has_call(ctx, "R4", "one-hash-per-solution-of-the-set", prog, f, r"Iterator::map$", [r"^slice::iter\(solutions\)$", r"^\{closure#0\}$"])
    f = prog.fn(A + "predicate_exists")
    if ctx.anchor("R4", "fn predicate_exists", f):
        E.has_call(ctx, "R4", "membership-of-the-popped-hash", prog, f, r"HashSet::contains$",
                   [r"^essential_vm::cached::LazyCache::get_pred_data_hashes\(cache, solutions\)$", r"^essential_types::convert::u8_32_from_word_4\(essential_vm::stack::Stack::pop4\(stack\)\?\)$"])
        E.has_call(ctx, "R4", "pushes-the-membership-bit", prog, f, r"stack::Stack::push$", ["^stack$", r"^\(std::collections::HashSet::contains\(.*\) as i64\)$"])
    # ---- R5 ---------------------------------------------------------------
    if rec:
        hit = []
        for bb, c, a in E.calls(prog, rec, keep=r"stack::Stack::extend$"):
            if a[1] == "repeat{0}":
                at = [x.text for x in C.conditions(prog, rec, bb)]
                ty = [l["ty"] for l in rec.locals if l["ty"] == "[i64; 5]"]
                hit.append((bb, at[-1][:100] if at else "", bool(ty)))
        ok = len(hit) == 1 and hit[0][1].startswith("is:Err(secp256k1::ecdsa::recovery::<impl secp256k1::Secp256k1<C>>::recover_ecdsa(") and hit[0][2]
        ctx.ob("R5", "unrecoverable->[0;5]", ok, rec.loc(hit[0][0]) if hit else "%s:%d" % (rec.file, rec.line), "zero pushes: %s" % hit, rec)


def pop_identity(prog, f, callee_rx):
    """For a call whose arguments are `Stack::pop(stack)?` values: which pop (0 = first executed) feeds each argument."""
    pv = prog.prov(f)
    pops = sorted(bb for bb, t in f.calls() if M.callee_of(t) == "essential_vm::stack::Stack::pop")
    dest = {}
    for i, bb in enumerate(pops):
        dest[M.Place(f.term(bb)["dest"]).local] = i
    for bb, t in f.calls():
        if re.search(callee_rx, M.callee_of(t)):
            out = []
            for a in t["args"]:
                x = M.peel(pv.of_operand(a))
                src = None
                if x.kind == "try" and x.meta:
                    # x.meta is the Try::branch call; its argument is the (map_err'd) pop result
                    cur = M.op_place(x.meta["args"][0])
                    seen = 0
                    while cur is not None and cur.local not in dest and seen < 6:
                        seen += 1
                        nxt = None
                        for (b2, si, kind, payload) in pv.defs.get(cur.local, []):
                            if kind == "call" and payload["args"]:
                                nxt = M.op_place(payload["args"][0])
                            elif kind == "rv" and payload["k"] == "use":
                                nxt = M.op_place(payload["a"])
                        cur = nxt
                    src = dest.get(cur.local) if cur is not None else None
                out.append(src)
            return out
    return None


def r6(ctx, prog):
    from .. import access as AC
    pb = prog.fn("essential_vm::crypto::pop_bytes")
    if ctx.anchor("R6", "fn pop_bytes", pb):
        ctx.saw(pb)
        v = AC.View(prog, pb)
        bb, t = v.one(r"stack::Stack::pop_words$")
        n = M.peel(v.pv.of_operand(t["args"][1])) if t else None
        ok = n is not None and n.kind == "call" and n.a.endswith("usize::div_ceil") or (n is not None and n.kind == "call" and re.search(r"<impl usize>::div_ceil$", n.a) is not None)
        a0 = AC.norm(M.render(AC.positional(n.sub[0]))) if ok and n.sub else "?"
        d = M.peel(n.sub[1]) if ok and len(n.sub) > 1 else None
        width = None
        if d is not None and d.kind == "call" and d.a == "std::mem::size_of" and d.meta and d.meta.get("gargs"):
            width = M.norm_ty(d.meta["gargs"][0])
        elif d is not None and d.kind == "const":
            width = d.a
        ctx.ob("R6", "pop_bytes:takes-ceil(len/8)-words", bool(ok) and a0 == "<T as std::convert::TryInto<U>>::try_into(pop($1)?)?" and width in ("i64", 8), pb.loc(bb) if bb is not None else pb.loc(0),
               "pop_words(stack, div_ceil(%s, size_of::<%s>()), ..): the byte length is the popped word, the word size that of Word" % (a0, width), pb)
        clos = [c for c in prog.closures_of(pb) if prog.prov(c).of_local(0).has_call(r"Iterator::take$") or "take" in M.render(prog.prov(c).of_local(0))]
        if ctx.anchor("R6", "pop_bytes conversion closure", clos):
            c = clos[0]
            ctx.saw(c)
            cv = AC.View(prog, c, AC.closure_env(prog, pb, c))
            r = AC.norm(M.render(AC.positional(cv.pv.of_local(0), cv.env)))
            want = "Result::Ok{std::iter::Iterator::collect(std::iter::Iterator::take(essential_vm::crypto::bytes_from_words(std::iter::Iterator::copied(slice::iter($2))), <T as std::convert::TryInto<U>>::try_into(pop(^1)?)?))}"
            ctx.ob("R6", "pop_bytes:bytes-of-the-words-in-stack-order-cut-to-len", r == want, c.loc(0), "closure returns %s" % r[:230], c)
    pw = prog.fn("essential_vm::stack::Stack::pop_words")
    if ctx.anchor("R6", "fn Stack::pop_words", pw):
        ctx.saw(pw)
        v = AC.View(prog, pw)
        cb, ct = v.one(r"ops::FnOnce::call_once$|ops::FnMut::call_mut$|ops::Fn::call$")
        tup = M.peel(v.term(ct, 1)) if ct else None
        got = [v.form(s_) for s_ in tup.sub] if tup is not None and tup.kind == "aggr" else []
        tb, tt = v.one(r"Vec::truncate$")
        tr = v.arg(tt, 1) if tt else "?"
        ctx.ob("R6", "pop_words:hands-over-the-top-n-words-and-removes-them", got == ["slice_split_len($1, $2)?.1"] and tr == "slice::len(slice_split_len($1, $2)?.0)", pw.loc(0),
               "f(%s); truncate(%s): the words directly beneath the length word, in stack order" % (got, tr), pw)
    bw = prog.fn("essential_vm::crypto::bytes_from_words")
    if ctx.anchor("R6", "fn bytes_from_words", bw):
        r = AC.norm(M.render(AC.positional(prog.prov(bw).of_local(0))))
        ctx.ob("R6", "bytes_from_words:each-word-to-its-8-big-endian-bytes-in-order", r == "std::iter::Iterator::flat_map(std::iter::IntoIterator::into_iter($1), fn:essential_types::convert::bytes_from_word)", bw.loc(0), "returns %s" % r, bw)
    ve = prog.fn("essential_vm::crypto::verify_ed25519")
    if ctx.anchor("R6", "fn verify_ed25519", ve):
        ctx.saw(ve)
        v = AC.View(prog, ve)
        order = [(bb, M.callee_of(t).split("::")[-1]) for bb, t in ve.calls() if re.search(r"stack::Stack::pop\w*$|crypto::pop_bytes$", M.callee_of(t))]
        names = [n for _, n in order]
        ok = names == ["pop4", "pop8", "pop_bytes"] and all(v.dominates(order[i][0], order[i + 1][0]) for i in range(2))
        ctx.ob("R6", "VerifyEd25519:pops-key(4),signature(8),data", ok, ve.loc(0), "pops %s; asm.yml stack_in [data.., data_len, signature (8), public_key (4)]" % names, ve)
        bb, t = v.one(r"signature::verifier::Verifier<.*>>::verify$|Verifier::verify$")
        args = [AC.norm(M.render(AC.positional(M.peel(v.pv.of_operand(a))))) for a in t["args"]] if t else []
        want = ["ed25519_dalek::verifying::VerifyingKey::from_bytes(essential_types::convert::u8_32_from_word_4(pop4($1)?))?", "essential_vm::crypto::pop_bytes($1)?",
                "ed25519::Signature::from_bytes(essential_types::convert::u8_64_from_word_8(pop8($1)?))"]
        ctx.ob("R6", "VerifyEd25519:verify(key,data,signature)", args == want, ve.loc(bb) if bb is not None else ve.loc(0), "verify(%s)" % [a[:90] for a in args], ve)
        pbb, pt = v.one(r"stack::Stack::push$")
        got = AC.norm(M.render(AC.positional(M.peel(v.pv.of_operand(pt["args"][1]))))) if pt else "?"
        ctx.ob("R6", "VerifyEd25519:pushes-1-iff-verification-succeeds", re.match(r"^(int::from\()?Result::is_ok\(<.*Verifier<.*>>::verify\(.*\)\)\)?$", got) is not None and len(v.calls(r"stack::Stack::(push|extend)$")) == 1, ve.loc(pbb) if pbb is not None else ve.loc(0),
               "pushes %s" % (got[:60] + ".."), ve)
