"""C04 — a solution set is a set: results do not depend on solution order."""
import re

from .. import cond as C
from .. import hashing as H
from .. import mir as M

META = {
    "explanation": "R1 sort-before-hash for the solution-set address (the hashed iterator walks the very slice that was sorted; 32-byte elements) and delegation of every set-address entry point to "
                   "that one leaf. R2 per-solution hashing is order-free: the set address maps the plain `content_addr` function over `set.solutions` (no index, no neighbour), and the solution address "
                   "hashes the solution alone. R3 at most one value per (contract, key): the collection used to detect MultipleMutationsForSlot must live across solutions and involve the contract "
                   "address. R4 computed mutations are tested against declared ones (C16-R4).",
    "not_decided": "equality of verdict, gas and computed mutations under permutation as a behavioural fact (follows from C02 + R3 only informally).",
}


def run(ctx):
    prog = ctx.prog
    ctx.rule("R1", "the set address sorts the very slice it hashes; all set-address entry points reach that leaf")
    ctx.rule("R2", "per-solution hashing depends on one solution only")
    ctx.rule("R3", "the duplicate-slot detection spans all solutions and is keyed by contract")
    ctx.rule("R5", "the post-state view merges the mutations of *all* solutions (C03-R2): per-(contract,key) entries, never a per-solution replacement")
    H.sort_before_hash(ctx, "R1", "essential_hash::solution_set_addr::from_solution_addrs_slice", salt=False)
    H.delegation(ctx, "R1", only=r"solution_set_addr|SolutionSet>|^essential_hash::content_addr$")
    H.delegation(ctx, "R2", only=r"Address for essential_types::solution::Solution>|^essential_hash::hash$|^essential_hash::serialize$")
    from . import C03
    from .C19 import _Only
    C03.r2(_Only(ctx, "R2", "R5"), prog)
    ctx.rule("R6", "set validation visits every solution: the loops over the solutions are plain iterations (no take/skip/filter/step adaptor) and Ok is returned only when they are exhausted")
    ctx.rule("R7", "per-solution data stays with its solution regardless of position (C01-R6): cache, predicate, index, outputs and computed mutations are matched by solution index")
    r6(ctx, prog)
    from . import C01
    C01.r6(_Only(ctx, "R6", "R7"), prog)
    # keys are scoped by contract: the duplicate set used while computing mutations is fresh for every solution, so
    # whether a computed key is accepted cannot depend on which solutions were processed before (C16 R4)
    from . import C16
    ctx.rule("R9", "sorting, duplicate detection and map lookups use the derived structural equality / order / hash of the value types")
    H.structural_traits(ctx, "R9")
    ctx.rule("R8", "computed-mutation duplicate detection does not carry keys from one solution to the next (C16 R4)")
    C16.run(_Only(ctx, "R4", "R8"))
    ctx.rule("R10", "within a solution at most one value per key: the duplicate test probes the mutation's key (C16 R3)")
    C16.run(_Only(ctx, "R3", "R10"))
    # PredicateExists must answer from the hashes of *all* solutions of the set, whatever their position (C12 R4)
    from . import C12
    ctx.rule("R11", "PredicateExists is answered from one hash per solution of the whole set (C12 R4)")
    C12.run(_Only(ctx, "R4", "R11"))
    f = prog.fn("essential_hash::solution_set_addr::from_set")
    if ctx.anchor("R2", "fn from_set", f):
        ctx.saw(f)
        cs = H.calls(prog, f)
        maps = [M.render(a[1]) for _, c, a, _ in cs if c.endswith("Iterator::map")]
        bad = [c for _, c, _, _ in cs if re.search(r"Iterator::(enumerate|zip|rev|skip|take|filter|scan|fold|windows)$", c)]
        ctx.ob("R2", "maps-content_addr-over-solutions", maps == ["fn:essential_hash::content_addr"] and not bad, f.loc(0), "map functions %s; other adaptors %s" % (maps, bad), f)
    # R3
    g = prog.fn("essential_check::solution::check_set_state_mutations")
    if ctx.anchor("R3", "fn check_set_state_mutations", g):
        ctx.saw(g)
        pv = prog.prov(g)
        hits = []
        for bb in range(len(g.blocks)):
            t = g.term(bb)
            if t["k"] != "switch":
                continue
            for i in range(len(t["arms"]) + 1):
                v = t["arms"][i][0] if i < len(t["arms"]) else None
                a = C.atom_of_edge(prog, g, pv, bb, v, i)
                if a.kind == "bool" and a.terms[1].kind == "call" and re.search(r"(HashSet::insert|HashSet::contains|HashMap::insert|HashMap::contains_key|BTree\w+::(insert|contains\w*))$", a.terms[1].a):
                    blocks = g.cfg().blocks_only_via(("e", bb, i))
                    errs = [st["rv"]["variant"] for b in blocks for st in g.blocks[b]["stmts"] if st["k"] == "assign" and st["rv"]["k"] == "aggr" and st["rv"].get("agg") == "adt"]
                    if "MultipleMutationsForSlot" in errs:
                        hits.append((bb, a))
        if ctx.ob("R3", "duplicate-test-present", len(hits) == 1, g.loc(hits[0][0]) if hits else g.loc(0), "%d duplicate tests" % len(hits), g):
            bb, a = hits[0]
            call = a.terms[1]
            coll = M.peel(call.sub[0])
            probe = M.render(call.sub[1]) if len(call.sub) > 1 else ""
            # where is the collection created?
            created = [b2 for b2, t2 in g.calls() if re.search(r"(HashSet|HashMap|BTreeSet|BTreeMap)::(new|default|with_capacity)$", M.callee_of(t2))]
            in_solutions_loop = False
            for b2 in created:
                for x in C.conditions(prog, g, b2):
                    if x.text.startswith("is:Some(") and re.search(r"into_iter\(set\.solutions\)\)\)$", x.text):
                        in_solutions_loop = True
            keyed_by_contract = "contract" in probe or "predicate_to_solve" in probe or "contract" in M.render(coll)
            ctx.ob("R3", "one-value-per-(contract,key)-across-solutions", (not in_solutions_loop) and keyed_by_contract, g.loc(created[0]) if created else g.loc(bb),
                   "the duplicate set is %s the loop over solutions and is probed with `%s`: two solutions of one contract may propose different values for one key; "
                   "the set is accepted and the post-state then depends on solution order (later insert wins)" % ("created inside" if in_solutions_loop else "created outside", probe[:160]), g)


ADAPT = re.compile(r"Iterator::(take|take_while|skip|skip_while|step_by|filter|filter_map|map_while|scan|chain|zip|fuse|peekable|flat_map|flatten)$|slice::<impl \[T\]>::(split_at|split_first|split_last|chunks|windows|get)$")


def r6(ctx, prog):
    n = 0
    for name, root_rx in [("check_solutions", r"slice::iter\(solutions\)"), ("check_set_state_mutations", r"into_iter\(set\.solutions\)|slice::iter\(set\.solutions\)")]:
        f = prog.fn("essential_check::solution::" + name)
        if not ctx.anchor("R6", "fn " + name, f):
            continue
        ctx.saw(f)
        pv = prog.prov(f)
        outer = []
        for bb, t in f.calls():
            if M.callee_decl(t).endswith("Iterator::next"):
                recv = pv.of_operand(t["args"][0])
                r = M.render(recv)
                if re.search(root_rx, r) and ".0" not in r.split("solutions")[-1]:
                    adapters = [x.a for x in recv.walk() if x.kind == "call" and ADAPT.search(x.a)]
                    outer.append((bb, r, adapters))
        ok = len(outer) == 1 and not outer[0][2]
        n += 1
        ctx.ob("R6", "%s:plain-iteration-over-all-solutions" % name, ok, f.loc(outer[0][0]) if outer else f.loc(0), "loops over the solutions: %s" % [(r[:110], a) for _, r, a in outer], f)
        if len(outer) != 1:
            continue
        nxt = M.render(pv.of_call(f.term(outer[0][0])))
        oks = [at for _, v, at in M.return_table(prog, f) if v.startswith("Result::Ok")]
        ctx.ob("R6", "%s:Ok-only-after-the-last-solution" % name, len(oks) >= 1 and all(("is:None(%s)" % nxt) in at for at in oks), f.loc(0), "Ok returned under %s" % [[a[:70] for a in at[-1:]] for at in oks], f)
        loops = [l for l in M.natural_loops(f) if outer[0][0] in l[1]]
        # no exit from the solutions loop other than exhaustion, an error return, or unreachable
        if loops:
            body = max(loops, key=lambda l: len(l[1]))[1]
            leaves = []
            for b in M.loop_exit_switches(f, body):
                t = f.term(b)
                d = M.render(pv.of_operand(t["discr"]))
                for tgt in [a[1] for a in t["arms"]] + [t["otherwise"]]:
                    if tgt in body or f.term(tgt)["k"] == "unreachable":
                        continue
                    leaves.append((b, d, tgt))
            bad = []
            for b, d, tgt in leaves:
                if d == "discr(%s)" % nxt:
                    continue
                # every other exit must lead to an Err return only
                rows = [v for bb_, v, at in M.return_table(prog, f) if f.cfg().reaches(tgt, bb_) or tgt == bb_]
                if any(v.startswith("Result::Ok") for v in rows) and not _only_err_from(prog, f, tgt):
                    bad.append((b, d[:80]))
            ctx.ob("R6", "%s:no-early-accept" % name, not bad, f.loc(bad[0][0]) if bad else f.loc(0), "exits of the solutions loop that can reach Ok without exhausting it: %s" % bad, f)
    ctx.floor("R6", "validation loops over solutions", n, 2)


def _only_err_from(prog, f, start):
    """True when every return reachable from `start` without re-entering a loop header returns Err / propagates."""
    seen, todo = {start}, [start]
    while todo:
        x = todo.pop()
        t = f.term(x)
        if t["k"] == "return":
            continue
        for y in f.succs(x):
            if y not in seen:
                seen.add(y)
                todo.append(y)
    rows = [(bb_, v) for bb_, v, at in M.return_table(prog, f)]
    pv = prog.prov(f)
    # the value assigned to _0 on the paths through `seen`
    for bb in seen:
        for st in f.blocks[bb]["stmts"]:
            if st["k"] == "assign" and M.Place(st["pl"]).is_local() and M.Place(st["pl"]).local == 0:
                if M.render(pv.of_rvalue(st["rv"])).startswith("Result::Ok"):
                    return False
    return True
