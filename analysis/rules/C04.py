"""C04 — a solution set is a set: results do not depend on solution order."""
import re

from .. import cond as C
from .. import hashing as H
from .. import mir as M

META = {
    "explanation": "R1 sort-before-hash for the solution-set address (the hashed iterator walks the very slice that was sorted; 32-byte elements) and delegation of every set-address entry point to "
                   "that one leaf. R2 per-solution hashing is order-free: the set address maps the plain `content_addr` function over `set.solutions` (no index, no neighbour), and the solution address "
                   "hashes the solution alone. R3 at most one value per (contract, key): the collection used to detect MultipleMutationsForSlot must live across solutions and involve the contract "
                   "address. R4 computed mutations are tested against declared ones (C16-R4).",
    "not_decided": "equality of verdict, gas and computed mutations under permutation as a behavioural fact (follows from C02 + R3 only informally).",
}


def run(ctx):
    prog = ctx.prog
    ctx.rule("R1", "the set address sorts the very slice it hashes; all set-address entry points reach that leaf")
    ctx.rule("R2", "per-solution hashing depends on one solution only")
    ctx.rule("R3", "the duplicate-slot detection spans all solutions and is keyed by contract")
    ctx.rule("R5", "the post-state view merges the mutations of *all* solutions (C03-R2): per-(contract,key) entries, never a per-solution replacement")
    H.sort_before_hash(ctx, "R1", "essential_hash::solution_set_addr::from_solution_addrs_slice", salt=False)
    H.delegation(ctx, "R1", only=r"solution_set_addr|SolutionSet>|^essential_hash::content_addr$")
    H.delegation(ctx, "R2", only=r"Address for essential_types::solution::Solution>|^essential_hash::hash$|^essential_hash::serialize$")
    from . import C03
    from .C19 import _Only
    C03.r2(_Only(ctx, "R2", "R5"), prog)
    f = prog.fn("essential_hash::solution_set_addr::from_set")
    if ctx.anchor("R2", "fn from_set", f):
        ctx.saw(f)
        cs = H.calls(prog, f)
        maps = [M.render(a[1]) for _, c, a, _ in cs if c.endswith("Iterator::map")]
        bad = [c for _, c, _, _ in cs if re.search(r"Iterator::(enumerate|zip|rev|skip|take|filter|scan|fold|windows)$", c)]
        ctx.ob("R2", "maps-content_addr-over-solutions", maps == ["fn:essential_hash::content_addr"] and not bad, f.loc(0), "map functions %s; other adaptors %s" % (maps, bad), f)
    # R3
    g = prog.fn("essential_check::solution::check_set_state_mutations")
    if ctx.anchor("R3", "fn check_set_state_mutations", g):
        ctx.saw(g)
        pv = prog.prov(g)
        hits = []
        for bb in range(len(g.blocks)):
            t = g.term(bb)
            if t["k"] != "switch":
                continue
            for i in range(len(t["arms"]) + 1):
                v = t["arms"][i][0] if i < len(t["arms"]) else None
                a = C.atom_of_edge(prog, g, pv, bb, v, i)
                if a.kind == "bool" and a.terms[1].kind == "call" and re.search(r"(HashSet::insert|HashSet::contains|HashMap::insert|HashMap::contains_key|BTree\w+::(insert|contains\w*))$", a.terms[1].a):
                    blocks = g.cfg().blocks_only_via(("e", bb, i))
                    errs = [st["rv"]["variant"] for b in blocks for st in g.blocks[b]["stmts"] if st["k"] == "assign" and st["rv"]["k"] == "aggr" and st["rv"].get("agg") == "adt"]
                    if "MultipleMutationsForSlot" in errs:
                        hits.append((bb, a))
        if ctx.ob("R3", "duplicate-test-present", len(hits) == 1, g.loc(hits[0][0]) if hits else g.loc(0), "%d duplicate tests" % len(hits), g):
            bb, a = hits[0]
            call = a.terms[1]
            coll = M.peel(call.sub[0])
            probe = M.render(call.sub[1]) if len(call.sub) > 1 else ""
            # where is the collection created?
            created = [b2 for b2, t2 in g.calls() if re.search(r"(HashSet|HashMap|BTreeSet|BTreeMap)::(new|default|with_capacity)$", M.callee_of(t2))]
            in_solutions_loop = False
            for b2 in created:
                for x in C.conditions(prog, g, b2):
                    if x.text.startswith("is:Some(") and re.search(r"into_iter\(set\.solutions\)\)\)$", x.text):
                        in_solutions_loop = True
            keyed_by_contract = "contract" in probe or "predicate_to_solve" in probe or "contract" in M.render(coll)
            ctx.ob("R3", "one-value-per-(contract,key)-across-solutions", (not in_solutions_loop) and keyed_by_contract, g.loc(created[0]) if created else g.loc(bb),
                   "the duplicate set is %s the loop over solutions and is probed with `%s`: two solutions of one contract may propose different values for one key; "
                   "the set is accepted and the post-state then depends on solution order (later insert wins)" % ("created inside" if in_solutions_loop else "created outside", probe[:160]), g)
