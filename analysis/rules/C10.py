"""C10 — Compute forks and joins child programs like a sequential loop over indices."""
import re

from .. import cond as C
from .. import determinism as D
from .. import mir as M

META = {
    "explanation": "R1 ordered deterministic join: the rayon consumer of the compute children is order-preserving (results in index order; the first error by index). R2 guards: the fork is only "
                   "reachable when `breadth < 1` is false (error InvalidBreadth) and when parent_memory.len() < MAX_COMPUTE_DEPTH (= 1), so a nested Compute fails. R3 child initial state table: "
                   "the Vm built for child i has pc = parent pc + 1, stack = clone of the parent's stack with exactly one guarded push of i (the closure's parameter), a fresh Memory, the parent-memory "
                   "stack to which the parent's memory snapshot was just pushed, clones of the parent's repeat state and cache, and is run with clones of the parent's access / op accessor. "
                   "R4 join: parent memory grows only through Memory::alloc(total) which dominates every store_range; children are visited in result order, the write pointer starts at the old length "
                   "and advances by each child's length; the resulting pc is the max over children; halt is the disjunction; a child error is propagated before the join. R5 the parent's stack is popped "
                   "exactly once (the breadth) on the compute path.",
    "not_decided": "`behaves as if the children ran one after another` as a whole (follows from C02 + R3/R4 informally); values written by children.",
}

CMP = "essential_vm::compute::compute"


def run(ctx):
    prog = ctx.prog
    for r, t in [("R1", "ordered deterministic join of the children's results"), ("R2", "breadth >= 1 and depth < MAX_COMPUTE_DEPTH guard the fork"),
                 ("R3", "child initial state table"), ("R4", "join: alloc before stores, index order, pointer arithmetic, max pc, halt disjunction, errors propagate first"),
                 ("R5", "the parent's stack is popped once")]:
        ctx.rule(r, t)
    f = prog.fn(CMP)
    if not ctx.anchor("R1", "fn compute::compute", f):
        return
    ctx.saw(f)
    pv = prog.prov(f)
    n = D.check_consumers(ctx, "R1", only_fn=r"^essential_vm::compute::")
    ctx.floor("R1", "rayon consumers in compute", n, 1)
    cons = [(bb, t) for bb, t in f.calls() if M.callee_decl(t) == "rayon::iter::ParallelIterator::collect"]
    if not ctx.anchor("R2", "parallel collect in compute", len(cons) == 1, f.loc(0)):
        return
    cb, ct = cons[0]
    src = M.render(pv.of_operand(ct["args"][0]))
    ctx.ob("R1", "children-are-0..breadth-in-index-order", bool(re.match(
        r"^rayon::iter::ParallelIterator::map\(rayon::range::<impl rayon::iter::IntoParallelIterator for std::ops::Range<T>>::into_par_iter\(std::ops::Range::Range\{0, essential_vm::stack::Stack::pop\(inputs\.stack\)\?\}\), \{closure#1\}\)$", src)),
        f.loc(cb), "parallel source: %s" % src[:300], f)
    # after the parallel collect the first error *by index* is taken
    seq = [(bb, t) for bb, t in f.calls() if M.callee_decl(t) == "std::iter::Iterator::collect" and f.cfg().dominates(cb, bb)]
    ok = len(seq) == 1 and (seq[0][1].get("gargs") or ["", ""])[-1].startswith("std::result::Result<std::vec::Vec<")
    ctx.ob("R1", "first-error-by-index", ok, f.loc(seq[0][0]) if seq else f.loc(cb), "sequential collects after the join: %s" % [(t.get("gargs") or [])[-1][:80] for _, t in seq], f)
    # R2
    atoms = C.conditions(prog, f, cb)
    texts = [a.text for a in atoms]
    ctx.ob("R2", "breadth>=1", "Le(1, essential_vm::stack::Stack::pop(inputs.stack)?)" in texts, f.loc(cb), "fork dominated by %s" % texts, f)
    ctx.ob("R2", "depth<MAX_COMPUTE_DEPTH", "Lt(Vec::len(inputs.parent_memory), essential_vm::compute::MAX_COMPUTE_DEPTH)" in texts, f.loc(cb), "fork dominated by %s" % texts, f)
    ctx.ob("R2", "MAX_COMPUTE_DEPTH=1", prog.const_value("essential_vm::compute::MAX_COMPUTE_DEPTH") == 1, "crates/vm/src/compute.rs", "MAX_COMPUTE_DEPTH = %s" % prog.const_value("essential_vm::compute::MAX_COMPUTE_DEPTH"))
    errs = {}
    for bb, b in enumerate(f.blocks):
        for st in b["stmts"]:
            if st["k"] == "assign" and st["rv"]["k"] == "aggr" and st["rv"].get("variant") in ("InvalidBreadth", "DepthReached"):
                errs[st["rv"]["variant"]] = [a.text for a in C.conditions(prog, f, bb)]
    ctx.ob("R2", "InvalidBreadth-when-breadth<1", errs.get("InvalidBreadth", [None])[-1] == "Lt(essential_vm::stack::Stack::pop(inputs.stack)?, 1)", f.loc(0), "InvalidBreadth under %s" % errs.get("InvalidBreadth"), f)
    ctx.ob("R2", "DepthReached-when-depth>=MAX", errs.get("DepthReached", [None])[-1] == "Le(essential_vm::compute::MAX_COMPUTE_DEPTH, Vec::len(inputs.parent_memory))", f.loc(0), "DepthReached under %s" % errs.get("DepthReached"), f)
    # the snapshot pushed is the parent's memory
    pushes = [(bb, t) for bb, t in f.calls() if M.callee_of(t) == "std::vec::Vec::push"]
    ok = len(pushes) == 1 and M.render(pv.of_operand(pushes[0][1]["args"][1])) == "std::sync::Arc::new(<T as std::borrow::ToOwned>::to_owned(inputs.memory))" \
        and f.cfg().dominates(pushes[0][0], cb)
    ctx.ob("R3", "parent-memory-snapshot-pushed-before-fork", ok, f.loc(pushes[0][0]) if pushes else f.loc(0), "pushes: %s" % [M.render(pv.of_operand(t["args"][1])) for _, t in pushes], f)
    # R2: the parent fails for exactly five reasons (no other rejecting path, e.g. a spurious pre-check)
    tab = M.return_table(prog, f)
    kinds = []
    for bb_, v, at in tab:
        last = at[-1] if at else ""
        if v == "<propagate error>" and re.match(r"^err\(essential_vm::stack::Stack::pop\(inputs\.stack\)\)$", last):
            kinds.append("breadth-word-missing")
        elif v.startswith("Result::Err{") and "ComputeError::InvalidBreadth{" in v and re.match(r"^Lt\(essential_vm::stack::Stack::pop\(inputs\.stack\)\?, 1\)$", last):
            kinds.append("breadth<1")
        elif v.startswith("Result::Err{") and "ComputeError::DepthReached{" in v and re.match(r"^Le\(essential_vm::compute::MAX_COMPUTE_DEPTH, Vec::len\(inputs\.parent_memory\)\)$", last):
            kinds.append("depth-reached")
        elif v == "<propagate error>" and re.match(r"^err\(std::iter::Iterator::collect\(", last):
            kinds.append("child-error")
        elif v == "<propagate error>" and re.match(r"^err\(essential_vm::compute::compute_effects\(", last):
            kinds.append("join-error")
        elif v.startswith("Result::Ok{"):
            kinds.append("ok")
        else:
            kinds.append("OTHER:%s under %s" % (v[:60], last[:80]))
    ctx.ob("R2", "parent-fails-for-exactly:missing-breadth,breadth<1,depth,child-error,join-error", sorted(kinds) == sorted(["breadth-word-missing", "breadth<1", "depth-reached", "child-error", "join-error", "ok"]),
           f.loc(0), "returns of compute: %s" % kinds, f)
    # children read the parent's memory through the checked accessors, and the join grows the parent's memory through alloc,
    # which must fail exactly above the limit (C08 R6)
    from .. import access as A_
    ctx.rule("R6", "children read parent memory through the checked Memory::load / load_range; the join's alloc succeeds exactly while the combined length is within the limit (C08 R6)")
    A_.parent_memory_rules(ctx, "R6")
    A_.alloc_rules(ctx, "R6")
    A_.compute_inputs_wiring(ctx, "R3")
    # a child that stops does so through the validated conditions: an invalid HaltIf / JumpIf condition is a child error (C09 R1/R2)
    if not getattr(ctx, "_src", None):
        from . import C09
        from .C19 import _OnlyKeys
        C09.run(_OnlyKeys(ctx, "R1", "R6", r"halt_if|bool_from_word"))
        C09.run(_OnlyKeys(ctx, "R2", "R6", r"halt_if"))
    # R5
    pops = [(bb, t) for bb, t in f.calls() if M.callee_of(t).startswith("essential_vm::stack::Stack::") and M.render(M.peel(pv.of_operand(t["args"][0]))) == "inputs.stack"]
    ctx.ob("R5", "parent-stack-popped-once", [M.callee_of(t).split("::")[-1] for _, t in pops] == ["pop"], f.loc(0), "calls on the parent's stack: %s" % [M.callee_of(t).split("::")[-1] for _, t in pops], f)
    # R3 child closure
    c = prog.fn(CMP + "::{closure#1}")
    if ctx.anchor("R3", "child closure", c):
        ctx.saw(c)
        pvc = prog.prov(c)
        vm = [st["rv"] for b in c.blocks for st in b["stmts"] if st["k"] == "assign" and st["rv"]["k"] == "aggr" and st["rv"].get("agg") == "adt" and M.strip_generics(st["rv"]["adt"]) == "essential_vm::vm::Vm"]
        if ctx.ob("R3", "one-child-vm", len(vm) == 1, c.loc(0), "%d Vm aggregates" % len(vm), c):
            fields = dict(zip(vm[0]["fields"], [M.render(pvc.of_operand(o)) for o in vm[0]["ops"]]))
            want = {
                "pc": r"^AddWithOverflow\(<env>\._ref__pc, 1\)\.0$",
                "stack": r"^<essential_vm::stack::Stack as std::clone::Clone>::clone\(<env>\._ref__stack\)$",
                "memory": r"^(essential_vm::memory::Memory::new\(\)|<essential_vm::memory::Memory as std::default::Default>::default\(\)|<essential_vm::vm::Vm as std::default::Default>::default\(\)\.memory)$",
                "parent_memory": r"^<std::vec::Vec<T, A> as std::clone::Clone>::clone\(<env>\._ref__parent_memory\)$",
                "repeat": r"^<essential_vm::repeat::Repeat as std::clone::Clone>::clone\(<env>\._ref__repeat\)$",
                "cache": r"^<std::sync::Arc<T, A> as std::clone::Clone>::clone\(<env>\._ref__cache\)$",
                "halt": r"^<essential_vm::vm::Vm as std::default::Default>::default\(\)\.halt$",
            }
            for k, rx in want.items():
                ctx.ob("R3", "child." + k, bool(re.match(rx, fields.get(k, ""))), c.loc(0), "child Vm.%s = %s" % (k, fields.get(k, "<missing>")[:160]), c)
            # what the child clones must be the parent's *live* state at the fork (the fields of the inputs after the breadth
            # word was popped), not a snapshot taken earlier: resolve each captured variable to the operand the parent passes
            from .. import access as A
            env = A.closure_env(prog, f, c, transparent=False) or []
            names = getattr(c, "upvar_names", None) or []
            got = {re.sub(r"^_ref__", "", n): A.norm(M.render(t_)) for n, t_ in zip(names, env)}
            for k in ("stack", "pc", "parent_memory", "repeat", "cache"):
                src = [v for n, v in got.items() if re.match(r"^(\^1|\^1\.0)\.%s$" % k, v)]
                ctx.ob("R3", "child.%s:taken-from-the-parent's-live-state" % k, len(src) == 1, c.loc(0),
                       "captures resolve to %s; exactly one must be the parent's own `%s` (inputs.%s)" % (sorted(set(got.values()))[:12], k, k), c)
        pushes = [(bb, t) for bb, t in c.calls() if M.callee_of(t) == "essential_vm::stack::Stack::push"]
        ok = len(pushes) == 1 and [M.render(pvc.of_operand(a)) for a in pushes[0][1]["args"]] == ["<essential_vm::stack::Stack as std::clone::Clone>::clone(<env>._ref__stack)", "compute_index"]
        ctx.ob("R3", "child-stack=parent-clone+index", ok, c.loc(pushes[0][0]) if pushes else c.loc(0), "pushes %s" % [[M.render(pvc.of_operand(a)) for a in t["args"]] for _, t in pushes], c)
        ex = [(bb, t) for bb, t in c.calls() if M.callee_of(t) == "essential_vm::vm::Vm::exec"]
        if ctx.ob("R3", "child-runs-exec", len(ex) == 1, c.loc(0), "%d exec call(s)" % len(ex), c):
            bb, t = ex[0]
            at = [a.text for a in C.conditions(prog, c, bb)]
            ctx.ob("R3", "exec-only-after-index-pushed", any(a.startswith("ok(essential_vm::stack::Stack::push(") for a in at), c.loc(bb), "dominating %s" % at, c)
            r = [M.render(pvc.of_operand(a)) for a in t["args"]]
            ok = r[1:] == ["<essential_vm::access::Access as std::clone::Clone>::clone(<env>._ref__access)", "<env>._ref__state_reads", "std::clone::Clone::clone(<env>._ref__op_access)",
                           "<env>._ref__op_gas_cost", "<env>._ref__gas_limit"]
            ctx.ob("R3", "exec-arguments", ok, c.loc(bb), "exec(.., %s)" % ", ".join(x[:80] for x in r[1:]), c)
        maps = [cc for cc in prog.closures_of(c) if cc.path.endswith("{closure#1}")]
        if maps:
            ret = M.render(prog.prov(maps[0]).of_local(0))
            ctx.ob("R3", "child-result=(gas,pc,memory,halt)", bool(re.match(r"^tuple\{gas, <env>\.(_ref__)?vm(\.|__)pc, <env>\.(_ref__)?vm(\.|__)memory, <env>\.(_ref__)?vm(\.|__)halt\}$", ret)),
                   maps[0].loc(0), "child returns %s" % ret, maps[0])
    # R4 join
    j = prog.fn("essential_vm::compute::compute_effects")
    if ctx.anchor("R4", "fn compute_effects", j):
        ctx.saw(j)
        pvj = prog.prov(j)
        cs = [(bb, M.callee_of(t), [M.render(pvj.of_operand(a)) for a in t["args"]]) for bb, t in j.calls() if not j.blocks[bb]["cleanup"]]
        alloc = [x for x in cs if x[1] == "essential_vm::memory::Memory::alloc"]
        fe = [x for x in cs if x[1].endswith("Iterator>::for_each") or x[1].endswith("Iterator::for_each")]
        ctx.ob("R4", "alloc-once", len(alloc) == 1 and alloc[0][2][0] == "memory", j.loc(alloc[0][0]) if alloc else j.loc(0), "alloc calls %s" % alloc, j)
        ctx.ob("R4", "two-passes-over-results-in-order", len(fe) == 2 and all(x[2][0] == "slice::iter(compute_results)" for x in fe), j.loc(0), "for_each over %s" % [x[2][0] for x in fe], j)
        if len(fe) == 2 and alloc:
            ctx.ob("R4", "sum-then-alloc-then-store", j.cfg().dominates(fe[0][0], alloc[0][0]) and j.cfg().dominates(alloc[0][0], fe[1][0]), j.loc(alloc[0][0]), "blocks %s" % [fe[0][0], alloc[0][0], fe[1][0]], j)
            at = [a.text for a in C.conditions(prog, j, fe[1][0])]
            ctx.ob("R4", "stores-only-after-alloc-succeeded", any(a.startswith("ok(essential_vm::memory::Memory::alloc(memory") for a in at), j.loc(fe[1][0]), "dominating %s" % at, j)
        c0 = prog.fn(j.path + "::{closure#0}")
        c1 = prog.fn(j.path + "::{closure#1}")
        if ctx.anchor("R4", "join closures", c0 and c1):
            ctx.saw(c0)
            ctx.saw(c1)
            p0 = prog.prov(c0)
            p1 = prog.prov(c1)
            # closure#0: <total> += mem.len()   (captured variables are identified by role, not by name)
            w0 = writes_through_env(c0, p0)
            ok = len(w0) == 1 and all(re.match(r"^AddWithOverflow\(<env>\.(_ref__)?%s, Result::unwrap_or_default\(essential_vm::memory::Memory::len\(arg2\.2\)\)\)\.0$" % re.escape(k), v) for k, v in w0.items())
            ctx.ob("R4", "total=sum-of-child-memory-lengths", bool(ok), c0.loc(0), "first pass writes %s" % w0, c0)
            w1 = writes_through_env(c1, p1)
            calls1 = [(M.callee_of(t), [M.render(p1.of_operand(a)) for a in t["args"]]) for _, t in c1.calls()]
            pcw = [k for k, v in w1.items() if re.match(r"^std::cmp::max\(<env>\.(_ref__)?%s, arg2\.1\)$" % re.escape(k), v)]
            gasw = [k for k, v in w1.items() if re.match(r"^u64::saturating_add\(<env>\.(_ref__)?%s, arg2\.0\)$" % re.escape(k), v)]
            ptrw = [k for k, v in w1.items() if re.match(r"^AddWithOverflow\(<env>\.(_ref__)?%s, Result::unwrap\(essential_vm::memory::Memory::len\(arg2\.2\)\)\)\.0$" % re.escape(k), v)]
            ctx.ob("R4", "pc=max(pc,child pc)", len(pcw) == 1, c1.loc(0), "writes %s" % w1, c1)
            ctx.ob("R4", "gas=saturating-sum", len(gasw) == 1, c1.loc(0), "writes %s" % w1, c1)
            ctx.ob("R4", "pointer+=child-length", len(ptrw) == 1, c1.loc(0), "writes %s" % w1, c1)
            st = [a for c_, a in calls1 if c_ == "essential_vm::memory::Memory::store_range"]
            ok = len(st) == 1 and len(ptrw) == 1 and re.match(r"^<env>\.(_ref__)?\w+$", st[0][0]) is not None and re.match(r"^<env>\.(_ref__)?%s$" % re.escape(ptrw[0]), st[0][1]) is not None and st[0][2] == "arg2.2"
            ctx.ob("R4", "store-child-memory-at-pointer", bool(ok), c1.loc(0), "store_range%s" % st, c1)
            ctx.ob("R4", "halt|=child-halt", any(c_.endswith("BitOrAssign<&bool>>::bitor_assign") and re.match(r"^<env>\.(_ref__)?\w+$", a[0]) and a[1] == "arg2.3" for c_, a in calls1), c1.loc(0), "calls %s" % [c_ for c_, _ in calls1][-1:], c1)
            ctx.ob("R4", "nothing-else-written", set(w1) == set(pcw + gasw + ptrw), c1.loc(0), "captured variables written: %s" % sorted(w1), c1)
        ptr0 = [x for x in cs if x[1] == "essential_vm::memory::Memory::len" and x[2] == ["memory"]]
        ctx.ob("R4", "pointer-starts-at-old-length", len(ptr0) == 1 and (not alloc or j.cfg().dominates(ptr0[0][0], alloc[0][0])), j.loc(ptr0[0][0]) if ptr0 else j.loc(0), "memory.len() read before alloc: %s" % bool(ptr0), j)
    # errors propagate before the join
    je = [(bb, t) for bb, t in f.calls() if M.callee_of(t) == "essential_vm::compute::compute_effects"]
    if je:
        at = [a.text for a in C.conditions(prog, f, je[0][0])]
        ctx.ob("R4", "child-error-propagates-before-join", any(a.startswith("ok(std::iter::Iterator::collect(") or a.startswith("ok(rayon::iter::ParallelIterator::collect(") for a in at), f.loc(je[0][0]), "join dominated by %s" % [a[:80] for a in at], f)
        r = [M.render(pv.of_operand(a)) for a in je[0][1]["args"]]
        ctx.ob("R4", "join-arguments", r[:3] == ["inputs.memory", "inputs.pc", "inputs.halt"], f.loc(je[0][0]), "compute_effects(%s, ..)" % ", ".join(r[:3]), f)


def writes_through_env(c, pv):
    """{captured variable name: rendered value} for assignments through `*env.field`."""
    out = {}
    for b in c.blocks:
        for st in b["stmts"]:
            if st["k"] != "assign":
                continue
            pl = M.Place(st["pl"])
            if not pl.proj:
                continue
            tgt = M.peel(pv.of_place(pl))
            if tgt.kind == "field" and tgt.sub and M.peel(tgt.sub[0]).kind == "param" and M.peel(tgt.sub[0]).a == "<env>":
                name = re.sub(r"^_ref__", "", tgt.a)
                out[name] = M.render(pv.of_rvalue(st["rv"]))
    return out
