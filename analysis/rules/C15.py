"""C15 — effect analysis reports exactly the effects a program contains."""
import os
import re

from .. import cond as C
from .. import facts as F
from .. import mir as M
from .. import tables as T

META = {
    "explanation": "R1 flags <-> arms of the op-level analysis: for every constant of the Effects bitflags there is exactly one `|=` of that constant, reachable only when the matched op is the "
                   "variant of the same name in the group that owns it, and no arm sets a flag of another name; the flag values are distinct single bits. R2 byte-scan pairs: every `return true` of "
                   "the byte-level query is guarded by `byte == u8::from(to_opcode(Op::G(G::V)))` and `effects.contains(Effects::V)` with the same V, the byte being the one just taken from the main "
                   "iterator, and every flag is covered. R3 immediates are skipped: for every spec op with num_arg_bytes = n > 0 there is an arm comparing with that op's opcode which advances the "
                   "same iterator by exactly n (take(n) drained) and does not return; no other arm advances the iterator; the final result is false. Together with C13 (opcode bytes are unique) this "
                   "gives: true exactly when an op with one of the requested effects occurs at an opcode position.",
    "not_decided": "nothing beyond the trusted base (bitflags' contains/|=, Iterator::take/for_each).",
    "trusted_base": ["bitflags crate: contains, bitor_assign, all", "C13 for the injectivity of opcode bytes"],
}

EFF = "essential_asm::effects::Effects::"


def run(ctx):
    prog = ctx.prog
    ctx.rule("R1", "op-level analysis: one `|= Effects::V` per flag, only under `op is G::V` of the same name")
    ctx.rule("R2", "byte scan: every `return true` is guarded by byte == opcode(G::V) and effects.contains(Effects::V), same V; all flags covered")
    ctx.rule("R3", "byte scan: ops with immediates advance the same iterator by exactly num_arg_bytes and do not return; nothing else advances it")
    if not getattr(ctx, "_src", None):
        # the one consumer of the byte-level query in the workspace asks about exactly the Post* flags (C03 R3): a query for a
        # neighbouring flag gives the checker a wrong answer to "does this program read post-state" although the scan is exact
        from . import C03
        from .C19 import _Only
        ctx.rule("R4", "the checker's deferral query names every Post* effect flag and nothing else is or-ed in (C03 R3)")
        C03.r3(_Only(ctx, "R3", "R4"), prog)
    flags = {k[len(EFF):]: int(v["int"]) for k, v in prog.consts.items() if k.startswith(EFF) and "int" in v and re.match(r"^[A-Z]\w+$", k[len(EFF):])}
    ctx.floor("R1", "Effects flags", len(flags), 6)
    vals = sorted(flags.values())
    ctx.ob("R1", "flags-are-distinct-single-bits", len(set(vals)) == len(vals) and all(v and v & (v - 1) == 0 for v in vals), "crates/asm/src/effects.rs", "flag values %s" % flags)
    owner = {}
    for g in ("StateRead", "Access"):
        for name, vi, d, _ in (T.enum_variants(prog, "essential_asm::op::" + g) or []):
            if name in flags:
                owner[name] = g
    ctx.ob("R1", "every-flag-names-an-op", set(owner) == set(flags), "crates/asm/src/effects.rs", "flags %s; ops of the same name %s" % (sorted(flags), owner))

    # ---- R1 ---------------------------------------------------------------
    g = prog.fn("essential_asm::effects::analyze")
    if ctx.anchor("R1", "fn effects::analyze", g):
        ctx.saw(g)
        pv = prog.prov(g)
        seen = {}
        for bb, t in g.calls():
            c = M.callee_of(t)
            if not re.search(r"(BitOrAssign for .*Effects>::bitor_assign|Effects>::(insert|set))$", c):
                continue
            fl = [x.a[len(EFF):] for x in pv.of_operand(t["args"][1]).walk() if x.kind == "named" and x.a.startswith(EFF)]
            atoms = [a for a in C.conditions(prog, g, bb) if a.kind == "variant"]
            names = [a.terms[0] for a in atoms]
            for f_ in fl:
                seen.setdefault(f_, []).append(bb)
                ok = f_ in names and owner.get(f_) in names
                ctx.ob("R1", "arm-sets-its-own-flag:" + f_, ok, g.loc(bb), "`|= Effects::%s` is reached under %s" % (f_, [a.text[:70] for a in atoms]), g)
            ctx.ob("R1", "arm-sets-one-flag@bb%s" % ",".join(fl), len(fl) == 1, g.loc(bb), "flags set in one arm: %s" % fl, g)
        for f_ in sorted(flags):
            ctx.ob("R1", "flag-has-an-arm:" + f_, len(seen.get(f_, [])) == 1, g.loc(0),
                   "Effects::%s is set by %d arm(s) of analyze" % (f_, len(seen.get(f_, []))), g)
        # the accumulator returned is the one the arms update
        rets = [M.render(pv.of_operand(st["rv"]["a"])) for b in g.blocks for st in b["stmts"] if st["k"] == "assign" and M.Place(st["pl"]).is_local()
                and M.Place(st["pl"]).local == 0 and st["rv"]["k"] == "use"]
        ctx.ob("R1", "returns-the-accumulator", len(rets) == 1 and rets[0].endswith("Effects>::empty()") or (len(rets) == 1 and re.match(r"^var:\w+$", rets[0]) is not None), g.loc(0), "returns %s" % rets, g)
        # the loop over the ops may only end when the input is exhausted or when *every* flag has been found
        bad_exit = []
        for h, body in M.natural_loops(g):
            for sb in M.loop_exit_switches(g, body):
                t = g.term(sb)
                for i in range(len(t["arms"]) + 1):
                    tgt = t["arms"][i][1] if i < len(t["arms"]) else t["otherwise"]
                    if tgt in body or g.blocks[tgt]["term"]["k"] == "unreachable":
                        continue
                    v = t["arms"][i][0] if i < len(t["arms"]) else None
                    a = C.atom_of_edge(prog, g, pv, sb, v, i).text
                    if a.startswith("is:None(<std::slice::Iter<'a, T> as std::iter::Iterator>::next("):
                        continue
                    if re.match(r"^true:<essential_asm::effects::Effects as std::cmp::PartialEq>::eq\(.*, essential_asm::effects::_::<impl essential_asm::effects::Effects>::all\(\)\)$", a):
                        continue
                    bad_exit.append(a[:160])
        ctx.ob("R1", "loop-ends-only-at-end-of-input-or-when-all-flags-found", not bad_exit, g.loc(0), "other exits of the loop over ops: %s" % bad_exit, g)
        # loop over all ops
        at = []
        for bbs in seen.values():
            at += [a.text for a in C.conditions(prog, g, bbs[0]) if a.text.startswith("is:Some(")]
        ctx.ob("R1", "iterates-all-ops", bool(at) and all(re.match(r"^is:Some\(<std::slice::Iter<'a, T> as std::iter::Iterator>::next\(std::slice::iter::<impl std::iter::IntoIterator for &'a \[T\]>::into_iter\(ops\)\)\)$", a) or
                                                              re.match(r"^is:Some\(<std::slice::Iter<'a, T> as std::iter::Iterator>::next\(slice::iter\(ops\)\)\)$", a) for a in at), g.loc(0),
               "loop conditions %s" % sorted(set(at))[:2], g)

    # ---- R2 / R3 ----------------------------------------------------------
    f = prog.fn("essential_asm::effects::bytes_contains_any")
    if not ctx.anchor("R2", "fn effects::bytes_contains_any", f):
        return
    ctx.saw(f)
    pv = prog.prov(f)
    spec = T.load_spec(ctx.repo)
    BYTE = r"\*?\(<std::slice::Iter<'a, T> as std::iter::Iterator>::next\(slice::iter\(bytes\)\) as Some\)\.0"
    OPC = re.compile(r"^Eq\(" + BYTE + r", <T as std::convert::Into<U>>::into\(<essential_asm::op::Op as essential_asm::op::ToOpcode>::to_opcode\(essential_asm::op::Op::(\w+)\{essential_asm::op::(\w+)::(\w+)\{.*\}\}\)\)\)$")
    OPC2 = re.compile(r"^Eq\(<T as std::convert::Into<U>>::into\(<essential_asm::op::Op as essential_asm::op::ToOpcode>::to_opcode\(essential_asm::op::Op::(\w+)\{essential_asm::op::(\w+)::(\w+)\{.*\}\}\)\), " + BYTE + r"\)$")
    CONT = re.compile(r"^true:essential_asm::effects::_::<impl essential_asm::effects::Effects>::(contains|intersects)\(effects, essential_asm::effects::Effects::(\w+)\)$")
    covered = set()
    n_true = 0
    falses = 0
    for bb, b in enumerate(f.blocks):
        for st in b["stmts"]:
            if not (st["k"] == "assign" and M.Place(st["pl"]).is_local() and M.Place(st["pl"]).local == 0 and st["rv"]["k"] == "use"):
                continue
            v = M.const_int(st["rv"]["a"])
            atoms = [a.text for a in C.conditions(prog, f, bb)]
            if v == 1:
                n_true += 1
                ops = [(m.group(1), m.group(3)) for m in (OPC.match(a) or OPC2.match(a) for a in atoms) if m]
                cont = [m.group(2) for m in (CONT.match(a) for a in atoms) if m]
                ok = len(ops) == 1 and len(cont) == 1 and ops[0][1] == cont[0] and owner.get(cont[0]) == ops[0][0]
                if ok:
                    covered.add(cont[0])
                # no negated equalities of *other* effect opcodes are a problem; but a negated contains() of the same flag would be
                ctx.ob("R2", "return-true#%d:%s" % (n_true, cont[0] if cont else "?"), ok, f.loc(bb),
                       "returns true under opcode-of %s and contains %s; all conditions: %s" % (ops, cont, [a[:90] for a in atoms]), f)
            elif v == 0:
                falses += 1
                ctx.ob("R2", "return-false-only-at-end-of-input", atoms == ["is:None(<std::slice::Iter<'a, T> as std::iter::Iterator>::next(slice::iter(bytes)))"], f.loc(bb),
                       "returns false under %s" % [a[:120] for a in atoms], f)
            else:
                ctx.ob("R2", "return-value-constant@bb%d" % bb, False, f.loc(bb), "non-constant return value %s" % M.show_rv(st["rv"]), f)
    ctx.ob("R2", "all-flags-covered", covered == set(flags), f.loc(0), "flags with a guarded `return true`: %s; all flags: %s" % (sorted(covered), sorted(flags)), f)
    ctx.ob("R2", "one-return-true-per-flag", n_true == len(flags), f.loc(0), "%d `return true` sites for %d flags" % (n_true, len(flags)), f)
    # R3
    with_imm = [o for o in spec if o["num_arg_bytes"] > 0]
    ctx.floor("R3", "spec ops with immediates", len(with_imm), 1)
    adv = []
    for bb, t in f.calls():
        c = M.callee_decl(t)
        if re.search(r"Iterator::(take|skip|nth|advance_by|next|step_by|last|count|for_each|by_ref)$", c):
            recv = M.render(pv.of_operand(t["args"][0]))
            adv.append((bb, c.split("::")[-1], recv, [M.render(pv.of_operand(a)) for a in t["args"][1:]]))
    main_next = [a for a in adv if a[1] == "next" and a[2] == "slice::iter(bytes)"]
    ctx.ob("R3", "one-main-next", len(main_next) == 1, f.loc(0), "next() calls on the byte iterator: %d" % len(main_next), f)
    takes = [a for a in adv if a[1] == "take"]
    for o in with_imm:
        hit = None
        for (bb, name, recv, rest) in takes:
            atoms = [a.text for a in C.conditions(prog, f, bb)]
            ops = [(m.group(1), m.group(3)) for m in (OPC.match(a) or OPC2.match(a) for a in atoms) if m]
            if (o["group"], o["name"]) in ops:
                hit = (bb, recv, rest, atoms)
        ok = hit is not None and hit[1] == "std::iter::Iterator::by_ref(slice::iter(bytes))" and hit[2] == [str(o["num_arg_bytes"])]
        drained = False
        returns = True
        if hit is not None:
            # the Take adaptor is drained (for_each / count / last) and the arm falls through to the loop
            for (b2, name, recv, rest) in adv:
                if name in ("for_each", "count", "last") and recv.startswith("std::iter::Iterator::take(std::iter::Iterator::by_ref(slice::iter(bytes)), %d)" % o["num_arg_bytes"]):
                    drained = True
                    returns = not f.cfg().reaches(b2, main_next[0][0]) if main_next else True
        ctx.ob("R3", "skip-immediate:%s::%s" % (o["group"], o["name"]), ok and drained and not returns, f.loc(hit[0]) if hit else f.loc(0),
               "arm for %s: take(%s) on %s drained=%s loops-back=%s" % (o["name"], hit[2] if hit else None, hit[1] if hit else None, drained, not returns), f)
    others = [a for a in adv if a[1] in ("skip", "nth", "advance_by", "step_by")] + [a for a in adv if a[1] == "next" and a not in main_next] + takes[len(with_imm):]
    ctx.ob("R3", "nothing-else-advances-the-iterator", not others, f.loc(others[0][0]) if others else f.loc(0), "other advancing calls: %s" % [(a[1], a[2][:60]) for a in others], f)
