"""C11 — state-read ops pass the exact request and lay results out as documented."""
import re

from .. import mir as M
from .. import routing

META = {
    "explanation": "R1 routing table (view x contract) derived from the variant names of asm::StateRead: Post* variants ask StateReads::post and never pre, *Extern variants use the "
                   "external-address reader, the others receive this_solution().predicate_to_solve.contract. R2 request dataflow: the key and count handed to StateRead::key_range are "
                   "exactly the components popped by pop_key_range_args, the external address is ContentAddress(u8_32_from_word_4(pop4)), and a state error is wrapped by OpError::StateRead only. "
                   "R3 frame: the state-read module never grows memory (calls only Memory::store_range) and only pops from the stack. R4 layout skeleton of write_values_to_memory: "
                   "value area starts at mem_addr + 2*len(values); per value one store of [value_addr, value_len] at the pair cursor and one store of the value at value_addr; cursors advance by 2 and value_len.",
    "not_decided": "the popping order as observed on all stacks, behaviour when the state returns fewer or more values than requested (value-level).",
}

MOD = "essential_vm::state_read::"
KR = "essential_vm::state_read::StateRead::key_range"


def calls_in(prog, f):
    pv = prog.prov(f)
    out = []
    for bb, t in f.calls():
        if f.blocks[bb]["cleanup"]:
            continue
        out.append((bb, t, M.callee_of(t) if t.get("res") else M.callee_decl(t), [pv.of_operand(a) for a in t["args"]]))
    return out


def run(ctx):
    prog = ctx.prog
    ctx.rule("R1", "routing table: Post* -> StateReads::post, others -> pre; *Extern -> external reader, others -> reader given the solved predicate's contract")
    ctx.rule("R2", "request dataflow: key/count = components of pop_key_range_args, unmodified; external address = ContentAddress(u8_32_from_word_4(pop4)); state error wrapped by OpError::StateRead only")

    if not getattr(ctx, "_src", None):
        # the post view the Post* ops are pointed at: it answers through the overlay helper, which returns state errors unchanged
        # (C03 R2/R7), and it exists when the op runs because the deferral scan is exact (C15 R2/R3)
        from . import C03, C15
        from .C19 import _Only, _OnlyKeys
        ctx.rule("R5", "the post view answers through the overlay helper and propagates state errors (C03 R2/R7); deferral scan exact (C15 R2/R3)")
        C03.r2(_OnlyKeys(ctx, "R2", "R5", r"view-|overlay"), prog)
        C03.r7(_OnlyKeys(ctx, "R7", "R5", r"overlay"), prog)
        C15.run(_Only(ctx, "R2", "R5"))
        C15.run(_Only(ctx, "R3", "R5"))
    # operand readers fail only when a pop or the usize conversion fails: no further (spurious) rejection of a request
    for nm, want in [("pop_memory_address", [("<propagate error>", ["err(essential_vm::stack::Stack::pop(stack))"]),
                                             ("<propagate error>", ["ok(essential_vm::stack::Stack::pop(stack))", "err(int::try_from(essential_vm::stack::Stack::pop(stack)?))"]),
                                             ("Result::Ok{int::try_from(essential_vm::stack::Stack::pop(stack)?)?}", ["ok(essential_vm::stack::Stack::pop(stack))", "ok(int::try_from(essential_vm::stack::Stack::pop(stack)?))"])])]:
        f_ = prog.fn("essential_vm::state_read::" + nm)
        if ctx.anchor("R2", "fn " + nm, f_):
            ctx.saw(f_)
            rows = sorted((v, at) for _, v, at in M.return_table(prog, f_))
            ctx.ob("R2", nm + ":fails-only-when-the-pop-or-the-conversion-fails", rows == sorted(want), "%s:%d" % (f_.file, f_.line), "returns %s" % [(v[:60], [a[:50] for a in at][-1:]) for v, at in rows], f_)
    w_ = prog.fn("essential_vm::state_read::write_values_to_memory")
    if ctx.anchor("R2", "fn write_values_to_memory", w_):
        rows = [(v, at[-1] if at else "") for _, v, at in M.return_table(prog, w_)]
        errs = [l for v, l in rows if v == "<propagate error>"]
        kinds = sorted(re.sub(r"^err\((?:essential_vm::|int::|i64::)?([\w:]+)\(.*$", r"\1", l) for l in errs)
        want_k = sorted(["try_from", "checked_mul", "try_from", "checked_add", "try_from", "memory::Memory::store_range", "memory::Memory::store_range"])
        oks = [(v, l) for v, l in rows if v.startswith("Result::Ok{")]
        ctx.ob("R2", "write_values_to_memory:fails-only-where-a-conversion,the-address-sum-or-a-store-fails", len(rows) == 8 and kinds == want_k and len(oks) == 1 and oks[0][1].startswith("is:None("),
               "%s:%d" % (w_.file, w_.line), "failing returns propagate from %s; other returns %s" % (kinds, [v[:40] for v, _ in rows if v != "<propagate error>"]), w_)
    f_ = prog.fn("essential_vm::state_read::pop_key_range_args")
    if f_ is not None:
        rows = [(v, at) for _, v, at in M.return_table(prog, f_)]
        errs = [at[-1] for v, at in rows if v == "<propagate error>"]
        oks = [v for v, at in rows if v.startswith("Result::Ok{")]
        ok = len(rows) == 4 and len(oks) == 1 and sorted(re.sub(r"\(.*", "", e) for e in errs) == ["err", "err", "err"] and \
            any(e.startswith("err(essential_vm::stack::Stack::pop(") for e in errs) and any(e.startswith("err(int::try_from(") for e in errs) and any(e.startswith("err(essential_vm::stack::Stack::pop_len_words(") for e in errs)
        ctx.ob("R2", "pop_key_range_args:fails-only-when-a-pop-or-the-conversion-fails", ok, "%s:%d" % (f_.file, f_.line), "failing returns under %s" % [e[:60] for e in errs], f_)
    ctx.rule("R3", "frame: state_read never grows memory (only store_range) and only pops the stack")
    ctx.rule("R4", "layout skeleton of write_values_to_memory")
    routing.check_routing(ctx, "R1")
    # ---- R2 ----------------------------------------------------------------
    for name, ext in [("read_key_range", False), ("read_key_range_ext", True)]:
        f = prog.fn(MOD + name)
        if not ctx.anchor("R2", "fn " + name, f):
            continue
        ctx.saw(f)
        cs = calls_in(prog, f)
        kr = [(bb, t, a) for bb, t, c, a in cs if c == KR]
        if not ctx.ob("R2", name + ":one-state-request", len(kr) == 1, f.loc(0), "%d StateRead::key_range call(s)" % len(kr), f):
            continue
        bb, t, a = kr[0]
        r = [M.render(M.peel(x, transparent=False)) for x in a]
        ctx.ob("R2", name + ":view", M.peel(a[0]).kind == "param" and M.peel(a[0]).a == "state_read", f.loc(bb), "receiver %s" % r[0], f)
        ctx.ob("R2", name + ":key", r[2] == MOD + "pop_key_range_args(stack)?.0", f.loc(bb), "key argument `%s`" % r[2], f)
        ctx.ob("R2", name + ":count", r[3] == MOD + "pop_key_range_args(stack)?.1", f.loc(bb), "count argument `%s`" % r[3], f)
        if ext:
            want = "essential_types::ContentAddress::ContentAddress{essential_types::convert::u8_32_from_word_4(essential_vm::stack::Stack::pop4(stack)?)}"
            ctx.ob("R2", name + ":external-address", r[1] == want, f.loc(bb), "address argument `%s`" % r[1], f)
            # pop order: key args first, then the 4 address words
            order = [c for _, _, c, _ in cs if c in (MOD + "pop_key_range_args", "essential_vm::stack::Stack::pop4")]
            ctx.ob("R2", name + ":pop-order", order == [MOD + "pop_key_range_args", "essential_vm::stack::Stack::pop4"], f.loc(0), "pops: %s" % order, f)
        else:
            ctx.ob("R2", name + ":own-address", M.peel(a[1]).kind == "param" and M.peel(a[1]).a == "contract_addr", f.loc(bb), "address argument `%s`" % r[1], f)
        me = [(bb2, a2) for bb2, t2, c, a2 in cs if c.endswith("Result::map_err")]
        ok = len(me) == 1 and me[0][1][0].kind == "call" and me[0][1][0].a == KR and me[0][1][1].kind == "fn" and me[0][1][1].a == "essential_vm::error::OpError::StateRead"
        ctx.ob("R2", name + ":state-error-wrapped-unchanged", ok, f.loc(me[0][0]) if me else f.loc(0),
               "map_err(%s)" % (M.render(me[0][1][1]) if me else "missing"), f)
        others = [c for _, _, c, _ in cs if c not in (KR, MOD + "pop_key_range_args", "essential_vm::stack::Stack::pop4", "essential_types::convert::u8_32_from_word_4")
                  and not re.search(r"Result::map_err$|Clone>::clone$|ops::(Try|FromResidual)", c)]
        ctx.ob("R2", name + ":nothing-else", not others, f.loc(0), "other calls: %s" % others, f)
    f = prog.fn(MOD + "pop_key_range_args")
    if ctx.anchor("R2", "fn pop_key_range_args", f):
        ctx.saw(f)
        cs = calls_in(prog, f)
        order = [c for _, _, c, _ in cs if c.startswith("essential_vm::stack::Stack::")]
        ctx.ob("R2", "pop_key_range_args:pops", order == ["essential_vm::stack::Stack::pop", "essential_vm::stack::Stack::pop_len_words"], f.loc(0), "stack calls %s" % order, f)
        oks = [M.render(prog.prov(f).of_rvalue(st["rv"])) for b in f.blocks for st in b["stmts"] if st["k"] == "assign" and st["rv"]["k"] == "aggr" and st["rv"].get("variant") == "Ok"]
        want = "Result::Ok{tuple{essential_vm::stack::Stack::pop_len_words(stack, {closure#1})?, int::try_from(essential_vm::stack::Stack::pop(stack)?)?}}"
        ctx.ob("R2", "pop_key_range_args:returns(key,count)", oks == [want], f.loc(0), "returns %s" % oks, f)
        for c in prog.closures_of(f):
            if c.path.endswith("{closure#1}"):
                inner = [M.callee_of(t) for _, t in c.calls()]
                ctx.ob("R2", "pop_key_range_args:key-is-the-popped-words", inner == ["std::slice::<impl [T]>::to_vec"], c.loc(0), "closure calls %s" % inner, c)
    for name, reader in [("key_range", "read_key_range"), ("key_range_ext", "read_key_range_ext")]:
        f = prog.fn(MOD + name)
        if not ctx.anchor("R2", "fn " + name, f):
            continue
        ctx.saw(f)
        cs = calls_in(prog, f)
        seq = [c.split("::")[-1] for _, _, c, _ in cs if c.startswith(MOD)]
        ctx.ob("R2", name + ":sequence", seq == ["pop_memory_address", reader, "write_values_to_memory"], f.loc(0), "calls %s" % seq, f)
        w = [a for _, _, c, a in cs if c == MOD + "write_values_to_memory"]
        if w:
            r = [M.render(M.peel(x, transparent=False)) for x in w[0]]
            ctx.ob("R2", name + ":writer-arguments", r[0] == MOD + "pop_memory_address(stack)?" and r[1].startswith(MOD + reader + "(") and r[1].endswith(")?") and r[2] == "memory",
                   f.loc(0), "write_values_to_memory(%s)" % ", ".join(x[:80] for x in r), f)
    # ---- R3 ----------------------------------------------------------------
    mem_calls, stack_calls = set(), set()
    n = 0
    for f in prog.find_fns(r"^essential_vm::state_read::[a-z_]+(::\{closure#\d+\})*$"):
        ctx.saw(f)
        n += 1
        for bb, t in f.calls():
            c = M.callee_of(t)
            if c.startswith("essential_vm::memory::Memory::"):
                mem_calls.add(c.split("::")[-1])
            if c.startswith("essential_vm::stack::Stack::"):
                stack_calls.add(c.split("::")[-1])
            if re.search(r"std::vec::Vec::(push|resize|extend|append|insert)", c) and "Memory" in " ".join(t.get("arg_tys", [])):
                mem_calls.add("raw:" + c)
    ctx.floor("R3", "functions of module state_read", n, 7)
    ctx.ob("R3", "memory-only-store_range", mem_calls == {"store_range"}, "crates/vm/src/state_read.rs", "Memory methods called: %s" % sorted(mem_calls))
    ctx.ob("R3", "stack-only-popped", stack_calls <= {"pop", "pop4", "pop_len_words", "pop2", "pop3", "pop8", "pop_len"} and "pop" in stack_calls, "crates/vm/src/state_read.rs",
           "Stack methods called: %s" % sorted(stack_calls))
    # ---- R4 ----------------------------------------------------------------
    f = prog.fn(MOD + "write_values_to_memory")
    if ctx.anchor("R4", "fn write_values_to_memory", f):
        ctx.saw(f)
        pv = prog.prov(f)
        cs = calls_in(prog, f)
        stores = [(bb, a) for bb, _, c, a in cs if c == "essential_vm::memory::Memory::store_range"]
        ctx.ob("R4", "two-stores-per-value", len(stores) == 2, f.loc(0), "%d store_range call(s)" % len(stores), f)
        NEXT = r"\(<std::vec::IntoIter<T, A> as std::iter::Iterator>::next\(<std::vec::Vec<T, A> as std::iter::IntoIterator>::into_iter\(values\)\) as Some\)\.0"
        PAIR = VAL = None
        if len(stores) == 2:
            (b1, a1), (b2, a2) = sorted(stores)
            r1 = [M.render(x) for x in a1]
            r2 = [M.render(x) for x in a2]
            m1 = re.match(r"^var:(\w+)$", r1[1])
            m2 = re.match(r"^var:(\w+)$", r2[1])
            PAIR, VAL = (m1.group(1) if m1 else None), (m2.group(1) if m2 else None)
            ctx.ob("R4", "pair-store", bool(m1 and m2) and PAIR != VAL and bool(re.match(r"^array\{var:%s, int::try_from\(Vec::len\(" % VAL + NEXT + r"\)\)\?\}$", r1[2])), f.loc(b1),
                   "store_range(%s, %s)" % (r1[1], r1[2][:200]), f)
            ctx.ob("R4", "value-store", bool(m2) and bool(re.match("^" + NEXT + "$", r2[2])), f.loc(b2), "store_range(%s, %s)" % (r2[1], r2[2][:200]), f)
            loops1 = M.loops_containing(f, b1)
            loops2 = M.loops_containing(f, b2)
            ctx.ob("R4", "stores-in-the-values-loop", len(loops1) == 1 and len(loops2) == 1 and loops1[0][0] == loops2[0][0] and f.cfg().dominates(b1, b2), f.loc(b1),
                   "pair store precedes value store inside one loop over `values`", f)
        # cursor definitions (the cursors are identified by their role in the two stores, not by name)
        defs = {PAIR: set(), VAL: set()}
        for l, nm in f.names.items():
            if nm in defs and nm is not None:
                t = pv.of_local(l)
                if t.kind != "phi":
                    continue
                for alt in t.sub:
                    defs[nm].add(M.render(alt))
        want_mem = {"int::try_from(mem_addr)?", "AddWithOverflow(var:%s, 2).0" % PAIR}
        ctx.ob("R4", "pair-cursor", defs.get(PAIR) == want_mem, f.loc(0), "the pair cursor is assigned %s" % sorted(defs.get(PAIR) or []), f)
        va = sorted(defs.get(VAL) or [])
        ok = len(va) == 2 and "i64::checked_add(var:%s, i64::checked_mul(int::try_from(Vec::len(values))?, 2)?)?" % PAIR in va and any(
            re.match(r"^AddWithOverflow\(var:%s, int::try_from\(Vec::len\(" % VAL + NEXT + r"\)\)\?\)\.0$", x) for x in va)
        ctx.ob("R4", "value-cursor", ok, f.loc(0), "the value cursor is assigned %s" % [x[:160] for x in va], f)
