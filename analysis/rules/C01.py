"""C01 — solution-set verdict equals the predicate-graph reference semantics (structural clauses)."""
import re

from .. import cond as C
from .. import mir as M

META = {
    "explanation": "The statement as a whole is a behavioural equivalence over all graphs, node programs and numberings; that part is NOT decided. Three clauses are visible in the shape of the code "
                   "and are decided. R1 validate-before-run: every place from which a node program can be started (the serial and the parallel map closures) is created only after "
                   "create_parent_map and parallel_topo_sort succeeded; the level-order function returns Err when a level is empty while nodes remain (cycle) and propagates invalid edge ranges; "
                   "the parent map fails on a node whose edge range is invalid. R2 edge targets are validated: every edge value used as a node index is compared with nodes.len() on the validation path "
                   "that dominates execution. R3 leaf interpretation table: Satisfied(true) only for a final stack of length exactly 1 whose word is 1, DataOutput(Memory(vm.memory)) only for length 1 and "
                   "word 2, every other leaf outcome is Satisfied(false); leaf/parent is decided by `node_edges(ix).is_empty()`; parents export (stack, memory). R4 parent inputs are collected in "
                   "ascending parent order from the parent map; each node's program is the one addressed by its own node entry.",
    "not_decided": "(R5 decides the level-order bookkeeping: in-degree = entries of the parent list = edges into the node, one decrement per edge, removal after scheduling.) exactly-once execution, numbering independence of verdict / indices / outputs / gas, concatenation of parents' stacks and memories as values, equality with the reference semantics.",
}

INNER = "essential_check::solution::check_predicate_inner"


def run(ctx):
    prog = ctx.prog
    for r, t in [("R1", "graph validation dominates every program start; cycles and malformed edge ranges are errors"), ("R2", "edge targets are compared with the number of nodes before execution"),
                 ("R3", "leaf interpretation table"), ("R4", "parent inputs in ascending order; program of the node's own address"),
                 ("R5", "level order bookkeeping (Kahn): a node's in-degree is the number of edges into it, it is decremented once per edge of a finished parent, a node is scheduled exactly when it reaches 0 and is then removed")]:
        ctx.rule(r, t)
    r5(ctx, prog)
    # parent outputs must stay available to every later level: within the level loop the output maps only grow
    f_ = prog.fn(INNER)
    if f_ is not None:
        muts = []
        for g in [f_] + prog.closures_of(f_):
            for bb, t in g.calls():
                if g.blocks[bb]["cleanup"]:
                    continue
                tys = [M.norm_ty(x) for x in t.get("arg_tys", [])]
                if tys and re.match(r"^&mut std::collections::HashMap<u16, std::sync::Arc<\(essential_vm::stack::Stack, essential_vm::memory::Memory\)>", tys[0]):
                    muts.append((g, bb, M.callee_of(t).split("::")[-1]))
        bad = [(g.loc(bb), c) for g, bb, c in muts if c not in ("insert", "entry", "extend", "get", "contains_key", "len", "is_empty", "get_mut")]
        ctx.ob("R4", "parent-outputs-are-only-added-never-dropped", len(muts) >= 2 and not bad, bad[0][0] if bad else f_.loc(0),
               "mutating calls on the node-output maps: %s" % sorted({c for _, _, c in muts}) + ("; dropping: %s" % bad if bad else ""), f_)
    # the verdict of one graph: Ok exactly when every level was run and nothing failed or was unsatisfied; the two
    # rejecting verdicts under the corresponding non-empty list; no other way out (no shortcut that skips the levels)
    fi = prog.fn(INNER)
    if fi is not None:
        rows = [(v, at) for _, v, at in M.return_table(prog, fi)]
        LV = r"^is:None\(<std::vec::IntoIter<T, A> as std::iter::Iterator>::next\(<std::vec::Vec<T, A> as std::iter::IntoIterator>::into_iter\("
        oks = [(v, at) for v, at in rows if v.startswith("Result::Ok{")]
        ok_shape = len(oks) == 1 and len(oks[0][1]) >= 3 and any(re.match(LV, a) for a in oks[0][1]) and [a for a in oks[0][1] if a.startswith("true:Vec::is_empty(")].__len__() == 2
        kinds = []
        for v, at in rows:
            last = at[-1] if at else ""
            if v == "<propagate error>" and re.match(r"^err\(essential_check::solution::(create_parent_map|parallel_topo_sort)\(", last):
                kinds.append("invalid-graph")
            elif "ProgramErrors::ProgramErrors" in v and (last.startswith("false:") or any(a.startswith("is:Err(") for a in at)):
                kinds.append("program-errors")
            elif "ConstraintsUnsatisfied::ConstraintsUnsatisfied" in v and last.startswith("false:Vec::is_empty("):
                kinds.append("unsatisfied")
            elif v.startswith("Result::Ok{"):
                kinds.append("ok")
            else:
                kinds.append("OTHER:%s under %s" % (v[:50], last[:60]))
        ctx.ob("R3", "graph-verdict:Ok-only-after-every-level-ran-and-nothing-failed", ok_shape and sorted(kinds) == sorted(["invalid-graph", "invalid-graph", "program-errors", "program-errors", "unsatisfied", "ok"]),
               fi.loc(0), "returns %s; Ok under %s" % (kinds, [[a[:40] for a in at] for _, at in oks]), fi)
    # a child starts from the concatenation of its parents' stacks / memories, accepted exactly up to the VM limits
    from .. import access as A_
    A_.from_words_tables(ctx, "R4")
    # the gas reported for a graph counts every executed node once (C07 R5)
    if not getattr(ctx, "_src", None):
        from . import C07 as C07_
        from .C19 import _Only as _O7
        C07_.run(_O7(ctx, "R5", "R3"))
    # which nodes wait for the second pass is decided by the byte scan for Post* effects: its exactness (C15 R2/R3) and the
    # checker's query (C03 R3) are part of the verdict
    from . import C15 as C15_, C03 as C03_
    from .C19 import _Only as _O
    ctx.rule("R7", "deferral is decided exactly: the effects scan is exact (C15 R2/R3), the query names exactly the Post* flags (C03 R3) and the deferred set is closed under descendants (C03 R5)")
    C15_.run(_O(ctx, "R1", "R7"))
    C15_.run(_O(ctx, "R2", "R7"))
    C15_.run(_O(ctx, "R3", "R7"))
    C03_.r3(_O(ctx, "R3", "R7"), prog)
    C03_.r5(_O(ctx, "R5", "R7"), prog)
    # a malformed edge list is an error only because node_edges answers None for it (C18 R3, re-evaluated under R1)
    from . import C18
    C18.node_edges_rules(ctx, prog, "R1")
    ctx.rule("R6", "per-solution data stays with its solution: the cross-pass cache, the predicate, the index and the outputs of solution i are those of position i")
    r6(ctx, prog)
    f = prog.fn(INNER)
    if not ctx.anchor("R1", "fn check_predicate_inner", f):
        return
    ctx.saw(f)
    starts = 0
    for c in prog.closures_of(f):
        pvc = prog.prov(c)
        runs = [(bb, t) for bb, t in c.calls() if M.callee_decl(t).endswith("ops::Fn::call") and M.render(pvc.of_operand(t["args"][0])) == "<env>._ref__run"]
        if not runs:
            continue
        starts += 1
        ctx.saw(c)
        # where is this closure created?
        made = [bb for bb, b in enumerate(f.blocks) for st in b["stmts"] if st["k"] == "assign" and st["rv"]["k"] == "aggr" and st["rv"].get("agg") == "closure"
                and M.strip_generics(st["rv"]["closure"]) == c.path]
        for bb in made:
            at = [a.text for a in C.conditions(prog, f, bb)]
            ok = "ok(essential_check::solution::create_parent_map(predicate))" in at and any(a.startswith("ok(essential_check::solution::parallel_topo_sort(predicate, essential_check::solution::create_parent_map(predicate)?))") for a in at)
            ctx.ob("R1", "start-site-%s:after-validation" % c.path.split("::")[-1], ok, f.loc(bb), "closure that runs node programs is created under %s" % [a[:90] for a in at[:3]], f)
        # R4 inputs
        bb, t = runs[0]
        arg = M.render(pvc.of_operand(t["args"][1]))
        want = "tuple{ix, std::iter::Iterator::collect(std::iter::Iterator::filter_map(slice::iter(<std::collections::BTreeMap<K, V, A> as std::ops::Index<&Q>>::index(<env>._ref__parent_map, ix)), {closure#0}))}"
        ctx.ob("R4", "start-site-%s:inputs=parents-of-ix-in-map-order" % c.path.split("::")[-1], arg == want, c.loc(bb), "run(%s)" % arg[:260], c)
        # each parent's output is looked up in the cross-pass cache first and in this pass's cache otherwise (both start sites alike)
        g1 = prog.fn(c.path + "::{closure#0}")
        g2 = prog.fn(c.path + "::{closure#0}::{closure#0}")
        r1 = M.render(prog.prov(g1).of_local(0)) if g1 else None
        r2 = M.render(prog.prov(g2).of_local(0)) if g2 else None
        ctx.ob("R4", "start-site-%s:parent-output-from-cross-pass-cache-else-this-pass" % c.path.split("::")[-1],
               r1 == "Option::or_else(Option::cloned(std::collections::HashMap::get(<env>._ref__cache, parent_ix)), {closure#0})"
               and r2 == "Option::cloned(std::collections::HashMap::get(<env>._ref__local_cache, <env>._ref__parent_ix))", c.loc(bb), "per parent: %s / %s" % (r1, r2), c)
    ctx.ob("R1", "two-start-sites(serial,parallel)", starts == 2, f.loc(0), "%d closures invoke `run`" % starts, f)
    # parent lists are built in ascending node order
    pm = prog.fn("essential_check::solution::create_parent_map")
    if ctx.anchor("R1", "fn create_parent_map", pm):
        ctx.saw(pm)
        tab = M.return_table(prog, pm)
        errs = [at for _, v, at in tab if v == "<propagate error>"]
        ok = any(a.startswith("err(essential_types::predicate::Predicate::node_edges(predicate, ") for at in errs for a in at[-1:])
        ctx.ob("R1", "parent-map:invalid-edge-range-is-an-error", ok, "%s:%d" % (pm.file, pm.line), "error paths %s" % [at[-1][:100] for at in errs], pm)
        oks = [at for _, v, at in tab if v.startswith("Result::Ok")]
        ctx.ob("R4", "parent-map:nodes-visited-in-ascending-order", len(oks) == 1 and oks[0][-1].startswith("is:None(std::iter::range::<impl std::iter::Iterator for std::ops::Range<A>>::next(<I as std::iter::IntoIterator>::into_iter(std::ops::Range::Range{0, Vec::len(predicate.nodes)})))"),
               "%s:%d" % (pm.file, pm.line), "Ok returned under %s" % [a[:120] for a in (oks[0] if oks else [])], pm)
        # R2
        pv = prog.prov(pm)
        uses = []
        for bb, t in pm.calls():
            if M.callee_of(t) in ("std::collections::BTreeMap::entry",) and len(t["args"]) > 1:
                k = M.render(pv.of_operand(t["args"][1]))
                if "node_edges" in k:
                    at = [a for a in C.conditions(prog, pm, bb) if a.kind == "cmp"]
                    guarded = any(a.terms[0] == "Lt" and "node_edges" in M.render(a.terms[1]) and M.render(M.peel(a.terms[2], casts=True)) == "Vec::len(predicate.nodes)" for a in at)
                    uses.append((bb, k, guarded, [a.text for a in at]))
        if ctx.ob("R2", "edge-values-used-as-node-indices", len(uses) >= 1, "%s:%d" % (pm.file, pm.line), "%d uses of an edge value as a map key" % len(uses), pm):
            for bb, k, guarded, at in uses:
                ctx.ob("R2", "edge-target<nodes.len()", guarded, pm.loc(bb),
                       "edge value `%s` is used as a node index under comparisons %s: an edge to a node that does not exist must be rejected (otherwise the parent is no leaf, its output is cached and never checked)" % (k[:120], [a[:120] for a in at]), pm)
    ts = prog.fn("essential_check::solution::parallel_topo_sort")
    if ctx.anchor("R1", "fn parallel_topo_sort", ts):
        ctx.saw(ts)
        tab = M.return_table(prog, ts)
        IN = "essential_check::solution::in_degrees(Vec::len(predicate.nodes), parent_map)"
        cyc = [at for _, v, at in tab if v.startswith("Result::Err{essential_check::solution::PredicateError::InvalidNodeEdges")]
        ok = len(cyc) == 1 and cyc[0] == ["false:std::collections::BTreeMap::is_empty(%s)" % IN, "true:Vec::is_empty(essential_check::solution::find_nodes_with_no_parents(%s))" % IN]
        ctx.ob("R1", "topo-sort:empty-level-while-nodes-remain-is-an-error", ok, "%s:%d" % (ts.file, ts.line), "Err returned under %s" % cyc, ts)
        oks = [at for _, v, at in tab if v.startswith("Result::Ok")]
        ctx.ob("R1", "topo-sort:Ok-only-when-all-nodes-consumed", oks == [["true:std::collections::BTreeMap::is_empty(%s)" % IN]], "%s:%d" % (ts.file, ts.line), "Ok returned under %s" % oks, ts)
    fz = prog.fn("essential_check::solution::find_nodes_with_no_parents")
    if ctx.anchor("R1", "fn find_nodes_with_no_parents", fz):
        ctx.saw(fz)
        for c in prog.closures_of(fz):
            tab = [(v, at) for _, v, at in M.return_table(prog, c)]
            ok = sorted(tab) == sorted([("Option::Some{arg2.0}", ["Eq(0, arg2.1)"]), ("Option::None{}", ["Ne(0, arg2.1)"])])
            ctx.ob("R1", "level=nodes-with-in-degree-0", ok, c.loc(0), "filter table %s" % tab, c)
    # ---- R3 ---------------------------------------------------------------
    rp = prog.fn("essential_check::solution::run_program")
    if ctx.anchor("R3", "fn run_program", rp):
        ctx.saw(rp)
        pv = prog.prov(rp)
        STK = r"<std::vec::Vec<T, A> as std::ops::Index<I>>::index\((.*)\.stack, std::ops::RangeFull::RangeFull\{\}\)"
        got = []
        for bb, b in enumerate(rp.blocks):
            if b["cleanup"]:
                continue
            for st in b["stmts"]:
                if st["k"] == "assign" and st["rv"]["k"] == "aggr" and st["rv"].get("agg") == "adt" and M.strip_generics(st["rv"]["adt"]) == "essential_check::solution::Output":
                    val = M.render(pv.of_rvalue(st["rv"]))
                    at = [a.text for a in C.conditions(prog, rp, bb)]
                    conds = []
                    for a in at:
                        if a in ("true:ctx.leaf", "false:ctx.leaf"):
                            conds.append(a)
                        m = re.match(r"^Eq\((\d+), PtrMetadata\(" + STK + r"\)\)$", a)
                        if m:
                            conds.append("len==%s" % m.group(1))
                        m = re.match(r"^eq:" + STK + r"\[(\d+)\]=(-?\d+)$", a)
                        if m:
                            conds.append("[%s]==%s" % (m.group(2), m.group(3)))
                        if re.match(r"^(Lt|Le|Ne)\(", a) and "PtrMetadata" in a:
                            conds.append("OTHER:" + a[:60])
                    val = re.sub(r"<essential_vm::vm::Vm as std::default::Default>::default\(\)", "vm", val)
                    got.append((val.replace("essential_check::solution::", ""), conds))
        want = [
            ("Output::Leaf{ProgramOutput::DataOutput{DataOutput::Memory{vm.memory}}}", ["true:ctx.leaf", "len==1", "[0]==2"]),
            ("Output::Leaf{ProgramOutput::Satisfied{1}}", ["true:ctx.leaf", "len==1", "[0]==1"]),
            ("Output::Leaf{ProgramOutput::Satisfied{0}}", ["true:ctx.leaf"]),
            ("Output::Parent{std::sync::Arc::new(tuple{vm.stack, vm.memory})}", ["false:ctx.leaf"]),
        ]
        ctx.ob("R3", "leaf-table", sorted(got) == sorted(want), "%s:%d" % (rp.file, rp.line), "outputs %s; specified %s" % (got, want), rp)
        ex = [(bb, t) for bb, t in rp.calls() if M.callee_of(t).startswith("essential_vm::vm::Vm::exec")]
        ctx.ob("R3", "outputs-only-after-successful-execution", len(ex) == 1, rp.loc(ex[0][0]) if ex else rp.loc(0), "%d exec call(s); all outputs are dominated by its success (see table conditions)" % len(ex), rp)
    cp = prog.fn("essential_check::solution::check_predicate::{closure#0}")
    if ctx.anchor("R3", "run closure of check_predicate", cp):
        ctx.saw(cp)
        pv = prog.prov(cp)
        ctxs = [M.render(pv.of_rvalue(st["rv"])) for b in cp.blocks for st in b["stmts"] if st["k"] == "assign" and st["rv"]["k"] == "aggr" and st["rv"].get("variant") == "ProgramCtx"]
        want = "essential_check::solution::ProgramCtx::ProgramCtx{parents, slice::is_empty(Option::expect(essential_types::predicate::Predicate::node_edges(<env>._ref__predicate, (ix as usize)), 'This is already checked'))}"
        ctx.ob("R3", "leaf=node-has-no-edges", ctxs == [want], cp.loc(0), "ProgramCtx %s" % ctxs, cp)
        gp = [[M.render(pv.of_operand(a)) for a in t["args"]] for _, t in cp.calls() if M.callee_decl(t) == "essential_check::solution::GetProgram::get_program"]
        ctx.ob("R4", "program=the-node's-own-address", gp == [["<env>._ref__get_program", "<std::vec::Vec<T, A> as std::ops::Index<I>>::index(<env>._ref__predicate.nodes, (ix as usize)).program_address"]], cp.loc(0), "get_program%s" % gp, cp)
        rets = [M.render(pv.of_rvalue(st["rv"])) for b in cp.blocks for st in b["stmts"] if st["k"] == "assign" and M.Place(st["pl"]).is_local() and M.Place(st["pl"]).local == 0]
        ctx.ob("R4", "result-tagged-with-the-node-index", len(rets) == 1 and rets[0].startswith("tuple{ix, essential_check::solution::run_program("), cp.loc(0), "returns %s" % [r[:80] for r in rets], cp)
    ne = prog.fn("essential_types::predicate::Predicate::node_edges")
    if ctx.anchor("R1", "fn Predicate::node_edges", ne):
        ctx.saw(ne)
        gets = [M.callee_of(t) for _, t in ne.calls() if "slice" in M.callee_of(t) or "Vec" in M.callee_of(t) or "Index" in M.callee_of(t)]
        ctx.ob("R1", "node_edges:checked-lookups-only", not [g for g in gets if "Index" in g], "%s:%d" % (ne.file, ne.line), "lookups %s" % sorted(set(M.short_path(g) for g in gets)), ne)


def r5(ctx, prog):
    """The parent lists hold one entry per *edge* (create_parent_map pushes per edge), so counting and decrementing must both be per edge."""
    from .. import access as A
    S = "essential_check::solution::"
    RNG = r"\(std::iter::range::<impl std::iter::Iterator for std::ops::Range<A>>::next\(<I as std::iter::IntoIterator>::into_iter\(std::ops::Range::Range\{0, \$1\}\)\) as Some\)\.0"
    f = prog.fn(S + "in_degrees")
    if ctx.anchor("R5", "fn in_degrees", f):
        ctx.saw(f)
        v = A.View(prog, f)
        ins = v.calls(r"BTreeMap::insert$")
        ok = False
        detail = "%d insert(s)" % len(ins)
        if len(ins) == 1:
            key = A.norm(M.render(A.positional(M.peel(v.pv.of_operand(ins[0][1]["args"][1]), casts=True))))
            val = A.norm(M.render(A.positional(M.peel(v.pv.of_operand(ins[0][1]["args"][2])))))
            m = re.match(r"^Option::map_or\(std::collections::BTreeMap::get\(\$2, \(%s as u16\)\), 0, \{closure#0\}\)$" % RNG, val)
            ok = bool(m) and re.match("^%s$" % RNG, key) is not None
            detail = "insert(%s.., %s..)" % (key[-40:], val[:60])
            loops = M.natural_loops(f)
            ok = ok and len(loops) == 1 and ins[0][0] in loops[0][1]
        ctx.ob("R5", "in-degree=length-of-the-node's-parent-list", ok, f.loc(0), detail + "; one entry per node 0..num_nodes, value = map_or(parents.get(node), 0, len)", f)
        clos = prog.closures_of(f)
        r = [A.norm(M.render(A.positional(prog.prov(c).of_local(0)))) for c in clos]
        ctx.ob("R5", "in-degree-counts-every-edge", r == ["Vec::len($2)"], f.loc(0), "the counting closure returns %s (the whole list: one entry per edge, no de-duplication)" % r, f)
    f = prog.fn(S + "create_parent_map")
    if ctx.anchor("R5", "fn create_parent_map", f):
        v = A.View(prog, f)
        pushes = v.calls(r"Vec::push$")
        loops = M.natural_loops(f)
        inner = [l for l in loops if any(l[1] < l2[1] for l2 in loops)]
        ok = len(pushes) == 1 and len(inner) == 1 and pushes[0][0] in inner[0][1]
        tgt = M.render(M.peel(v.pv.of_operand(pushes[0][1]["args"][0]))) if pushes else ""
        val = M.render(M.peel(v.pv.of_operand(pushes[0][1]["args"][1]), casts=True)) if pushes else ""
        ok = ok and re.match(r"^std::collections::btree_map::(entry::)?Entry::or_default\(std::collections::BTreeMap::entry\(.*\)\)$", tgt) is not None
        OUT = r"\(std::iter::range::<impl std::iter::Iterator for std::ops::Range<A>>::next\(<I as std::iter::IntoIterator>::into_iter\(std::ops::Range::Range\{0, Vec::len\(predicate\.nodes\)\}\)\) as Some\)\.0"
        ok = ok and re.match("^%s$" % OUT, val) is not None and re.search(r"BTreeMap::entry\(.*, \(<std::slice::Iter<'a, T> as std::iter::Iterator>::next\(.*Predicate::node_edges\(predicate, %s\)\?\)\) as Some\)\.0\)\)$" % OUT, tgt) is not None
        at = [a.text for a in C.conditions(prog, f, pushes[0][0])] if pushes else []
        kinds = [re.match(r"^(is:Some\(.*Iterator>::next\(|is:Some\(std::iter::range|ok\(essential_types::predicate::Predicate::node_edges\(|Lt\(int::from\()", a) is not None for a in at]
        ok = ok and len(at) == 4 and all(kinds)
        ctx.ob("R5", "parent-list-gets-one-entry-per-edge", ok, f.loc(pushes[0][0]) if pushes else f.loc(0), "one push per edge, in the edge loop, conditional only on the edge being valid: push(%s.., %s) under %d condition(s)" % (tgt[:70], val[-60:], len(at)), f)
    f = prog.fn(S + "reduce_in_degrees")
    if ctx.anchor("R5", "fn reduce_in_degrees", f):
        ctx.saw(f)
        v = A.View(prog, f)
        st = v.stores()
        CH = r"\(<std::slice::Iter<'a, T> as std::iter::Iterator>::next\(std::slice::iter::<impl std::iter::IntoIterator for &'a \[T\]>::into_iter\(\$2\)\) as Some\)\.0"
        SLOT = r"\(std::collections::BTreeMap::get_mut\(\$1, %s\) as Some\)\.0" % CH
        ok = len(st) == 1 and re.match("^%s$" % SLOT, st[0][1]) is not None and re.match(r"^-1 \+ %s$|^%s \+ -1$" % (SLOT, SLOT), st[0][2]) is not None
        loops = M.natural_loops(f)
        ok = ok and len(loops) == 1 and st[0][0] in loops[0][1]
        ctx.ob("R5", "one-decrement-per-edge-of-the-finished-parent", ok, f.loc(0), "for each child in the edge list: slot(child) := %s" % [x[2][-60:] for x in st], f)
    f = prog.fn(S + "parallel_topo_sort")
    if ctx.anchor("R5", "fn parallel_topo_sort ", f):
        v = A.View(prog, f)
        IN = "essential_check::solution::in_degrees(Vec::len($1.nodes), $2)"
        NODE = r"\(<std::vec::IntoIter<T, A> as std::iter::Iterator>::next\(<std::vec::Vec<T, A> as std::iter::IntoIterator>::into_iter\(essential_check::solution::find_nodes_with_no_parents\(%s\)\)\) as Some\)\.0" % re.escape(IN)
        rd = v.calls(r"solution::reduce_in_degrees$")
        rm = v.calls(r"BTreeMap::remove$")
        ne = v.calls(r"Predicate::node_edges$")
        r_ = lambda t, i: A.norm(M.render(A.positional(M.peel(v.pv.of_operand(t["args"][i]), casts=True))))
        ok = len(rd) == 1 and len(rm) == 1 and len(ne) == 1
        if ok:
            ok = r_(rd[0][1], 0) == IN and re.match(r"^essential_types::predicate::Predicate::node_edges\(\$1, \(%s as usize\)\)\?$" % NODE, A.norm(M.render(A.positional(M.peel(v.pv.of_operand(rd[0][1]["args"][1])))))) is not None
            ok = ok and r_(rm[0][1], 0) == IN and re.match("^%s$" % NODE, r_(rm[0][1], 1)) is not None
            loops = M.natural_loops(f)
            inner = [l for l in loops if any(l[1] < l2[1] for l2 in loops)]
            ok = ok and len(inner) == 1 and rd[0][0] in inner[0][1] and rm[0][0] in inner[0][1]
        ctx.ob("R5", "finished-node:children-decremented-then-node-removed", ok, f.loc(rd[0][0]) if rd else f.loc(0),
               "for each node of the level: reduce_in_degrees(in_degrees, node_edges(node)) and in_degrees.remove(node)", f)
        fn_ = v.calls(r"solution::find_nodes_with_no_parents$")
        ctx.ob("R5", "level-computed-from-the-current-in-degrees", len(fn_) == 1 and r_(fn_[0][1], 0) == IN and any(fn_[0][0] in l[1] for l in M.natural_loops(f)), f.loc(fn_[0][0]) if fn_ else f.loc(0),
               "find_nodes_with_no_parents(in_degrees) is re-evaluated in every round", f)


def r6(ctx, prog):
    from .. import access as A
    f = prog.fn("essential_check::solution::check_set_predicates")
    if not ctx.anchor("R6", "fn check_set_predicates", f):
        return
    ctx.saw(f)
    v = A.View(prog, f)
    CACHES = "std::iter::Iterator::collect(std::iter::Iterator::map(std::ops::Range::Range{0, Vec::len($2.solutions)}, {closure#0}))"
    mp = v.calls(r"rayon::iter::ParallelIterator::map$")
    got = A.norm(M.render(A.positional(M.peel(v.pv.of_operand(mp[0][1]["args"][0]))))) if len(mp) == 1 else "?"
    want = "rayon::iter::IndexedParallelIterator::enumerate(rayon::iter::IndexedParallelIterator::zip(<I as rayon::iter::IntoParallelRefIterator<'data>>::par_iter($2.solutions), %s))" % CACHES
    ctx.ob("R6", "solutions-zipped-with-caches-by-position-then-enumerated", got == want, f.loc(mp[0][0]) if mp else f.loc(0),
           "parallel map over %s" % got[:260], f)
    clos = {c.path.rsplit("::", 1)[-1]: c for c in prog.closures_of(f) if c.parent == f.path or c.path.count("{closure#") == 1}
    c0, c1, c2 = clos.get("{closure#0}"), clos.get("{closure#1}"), clos.get("{closure#2}")
    if ctx.anchor("R6", "cache hand-out closure", c0):
        ctx.saw(c0)
        r = A.norm(M.render(A.positional(prog.prov(c0).of_local(0), A.closure_env(prog, f, c0))))
        ctx.ob("R6", "cache-i=take(cache.entry(i))", r == "std::mem::take(std::collections::hash_map::Entry::or_default(std::collections::HashMap::entry(^7, ($2 as u16))))", c0.loc(0),
               "position i of the hand-out is %s" % r, c0)
    if ctx.anchor("R6", "per-solution closure", c1):
        ctx.saw(c1)
        cv = A.View(prog, c1, A.closure_env(prog, f, c1))
        cp = cv.calls(r"solution::check_predicate$")
        args = [A.norm(M.render(A.positional(M.peel(cv.pv.of_operand(a)), cv.env))) for a in cp[0][1]["args"]] if len(cp) == 1 else []
        ok = len(args) == 7 and args[1] == "^2" and args[2] == "essential_check::solution::GetPredicate::get_predicate(^3, $2.1.0.predicate_to_solve)" \
            and re.match(r"^Result::expect\(<T as std::convert::TryInto<U>>::try_into\(\$2\.0\), '.*'\)$", args[4]) is not None and args[6] == "essential_check::solution::Ctx::Ctx{^6, $2.1.1}"
        ctx.ob("R6", "solution-i:own-predicate,own-index,own-cache", ok, c1.loc(cp[0][0]) if cp else c1.loc(0),
               "check_predicate(set=%s, predicate=%s, index=%s, ctx=%s)" % (args[1:2], args[2:3], args[4:5], args[6:7]), c1)
        oks = [a for a in A._alts(cv.pv.of_local(0)) if a.kind == "aggr" and str(a.a).endswith("Result::Ok")]
        r = A.norm(M.render(A.positional(oks[0].sub[0], cv.env))) if len(oks) == 1 else "?"
        ctx.ob("R6", "result-tagged-with-the-same-index-and-cache", re.match(r"^tuple\{\(\$2\.0 as u16\), \(essential_check::solution::check_predicate\(.*\) as Ok\)\.0, \$2\.1\.1\}$", r) is not None, c1.loc(0), "Ok(%s)" % (r[:40] + ".." + r[-30:]), c1)
    if ctx.anchor("R6", "write-back closure", c2):
        ctx.saw(c2)
        cv = A.View(prog, c2, A.closure_env(prog, f, c2))
        st = cv.stores()
        slot = [s_ for s_ in st if s_[1].startswith("Option::expect(std::collections::HashMap::get_mut(")]
        ok = len(slot) == 1 and re.match(r"^Option::expect\(std::collections::HashMap::get_mut\(\^7, \$2\.0\), '.*'\)$", slot[0][1]) is not None and slot[0][2] == "$2.2"
        ctx.ob("R6", "cache-written-back-under-its-own-index", ok, c2.loc(0), "writes %s" % [(a[:70], b) for _, a, b in st], c2)
        r = A.norm(M.render(A.positional(cv.pv.of_local(0), cv.env)))
        ctx.ob("R6", "outputs-tagged-with-their-solution-index", r == "essential_check::solution::DataFromSolution::DataFromSolution{$2.0, $2.1.1}", c2.loc(0), "yields %s" % r, c2)
    A.run_program_access(ctx, "R6")
    dm = prog.fn("essential_check::solution::decode_mutations")
    if ctx.anchor("R6", "fn decode_mutations", dm):
        ctx.saw(dm)
        dv = A.View(prog, dm)
        ix = dv.calls(r"ops::IndexMut<I>>::index_mut$|slice::<impl \[T\]>::get_mut$")
        got = []
        ok = False
        for _, t in ix:
            a = A.norm(M.render(A.positional(M.peel(dv.pv.of_operand(t["args"][0])))))
            x = M.peel(dv.pv.of_operand(t["args"][1]), casts=True)
            b = A.norm(M.render(A.positional(x)))
            got.append((a, b))
            # the index is the u16 field of the DataFromSolution element being decoded (identified by type, not by name)
            if a == "$2.solutions" and x.kind == "field" and isinstance(x.meta, dict) and str(x.meta.get("of", "")).endswith("::DataFromSolution") and x.meta.get("ty") == "u16" \
                    and re.search(r"Iterator>::next\(.*into_iter\(\$1\.\w+\)\) as Some\)\.0\.\w+$", b):
                ok = True
        if not getattr(ctx, "_src", None):
            from . import C16
            from .C19 import _Only
            C16.run(_Only(ctx, "R4", "R6"))
        ctx.ob("R6", "computed-mutations-go-to-the-solution-named-by-the-output", ok, dm.loc(ix[0][0]) if ix else dm.loc(0), "indexing %s" % [(a, b[-60:]) for a, b in got], dm)
