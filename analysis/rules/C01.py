"""C01 — solution-set verdict equals the predicate-graph reference semantics (structural clauses)."""
import re

from .. import cond as C
from .. import mir as M

META = {
    "explanation": "The statement as a whole is a behavioural equivalence over all graphs, node programs and numberings; that part is NOT decided. Three clauses are visible in the shape of the code "
                   "and are decided. R1 validate-before-run: every place from which a node program can be started (the serial and the parallel map closures) is created only after "
                   "create_parent_map and parallel_topo_sort succeeded; the level-order function returns Err when a level is empty while nodes remain (cycle) and propagates invalid edge ranges; "
                   "the parent map fails on a node whose edge range is invalid. R2 edge targets are validated: every edge value used as a node index is compared with nodes.len() on the validation path "
                   "that dominates execution. R3 leaf interpretation table: Satisfied(true) only for a final stack of length exactly 1 whose word is 1, DataOutput(Memory(vm.memory)) only for length 1 and "
                   "word 2, every other leaf outcome is Satisfied(false); leaf/parent is decided by `node_edges(ix).is_empty()`; parents export (stack, memory). R4 parent inputs are collected in "
                   "ascending parent order from the parent map; each node's program is the one addressed by its own node entry.",
    "not_decided": "exactly-once execution, numbering independence of verdict / indices / outputs / gas, concatenation of parents' stacks and memories as values, equality with the reference semantics.",
}

INNER = "essential_check::solution::check_predicate_inner"


def run(ctx):
    prog = ctx.prog
    for r, t in [("R1", "graph validation dominates every program start; cycles and malformed edge ranges are errors"), ("R2", "edge targets are compared with the number of nodes before execution"),
                 ("R3", "leaf interpretation table"), ("R4", "parent inputs in ascending order; program of the node's own address")]:
        ctx.rule(r, t)
    f = prog.fn(INNER)
    if not ctx.anchor("R1", "fn check_predicate_inner", f):
        return
    ctx.saw(f)
    starts = 0
    for c in prog.closures_of(f):
        pvc = prog.prov(c)
        runs = [(bb, t) for bb, t in c.calls() if M.callee_decl(t).endswith("ops::Fn::call") and M.render(pvc.of_operand(t["args"][0])) == "<env>._ref__run"]
        if not runs:
            continue
        starts += 1
        ctx.saw(c)
        # where is this closure created?
        made = [bb for bb, b in enumerate(f.blocks) for st in b["stmts"] if st["k"] == "assign" and st["rv"]["k"] == "aggr" and st["rv"].get("agg") == "closure"
                and M.strip_generics(st["rv"]["closure"]) == c.path]
        for bb in made:
            at = [a.text for a in C.conditions(prog, f, bb)]
            ok = "ok(essential_check::solution::create_parent_map(predicate))" in at and any(a.startswith("ok(essential_check::solution::parallel_topo_sort(predicate, essential_check::solution::create_parent_map(predicate)?))") for a in at)
            ctx.ob("R1", "start-site-%s:after-validation" % c.path.split("::")[-1], ok, f.loc(bb), "closure that runs node programs is created under %s" % [a[:90] for a in at[:3]], f)
        # R4 inputs
        bb, t = runs[0]
        arg = M.render(pvc.of_operand(t["args"][1]))
        want = "tuple{ix, std::iter::Iterator::collect(std::iter::Iterator::filter_map(slice::iter(<std::collections::BTreeMap<K, V, A> as std::ops::Index<&Q>>::index(<env>._ref__parent_map, ix)), {closure#0}))}"
        ctx.ob("R4", "start-site-%s:inputs=parents-of-ix-in-map-order" % c.path.split("::")[-1], arg == want, c.loc(bb), "run(%s)" % arg[:260], c)
    ctx.ob("R1", "two-start-sites(serial,parallel)", starts == 2, f.loc(0), "%d closures invoke `run`" % starts, f)
    # parent lists are built in ascending node order
    pm = prog.fn("essential_check::solution::create_parent_map")
    if ctx.anchor("R1", "fn create_parent_map", pm):
        ctx.saw(pm)
        tab = M.return_table(prog, pm)
        errs = [at for _, v, at in tab if v == "<propagate error>"]
        ok = any(a.startswith("err(essential_types::predicate::Predicate::node_edges(predicate, ") for at in errs for a in at[-1:])
        ctx.ob("R1", "parent-map:invalid-edge-range-is-an-error", ok, "%s:%d" % (pm.file, pm.line), "error paths %s" % [at[-1][:100] for at in errs], pm)
        oks = [at for _, v, at in tab if v.startswith("Result::Ok")]
        ctx.ob("R4", "parent-map:nodes-visited-in-ascending-order", len(oks) == 1 and oks[0][-1].startswith("is:None(std::iter::range::<impl std::iter::Iterator for std::ops::Range<A>>::next(<I as std::iter::IntoIterator>::into_iter(std::ops::Range::Range{0, Vec::len(predicate.nodes)})))"),
               "%s:%d" % (pm.file, pm.line), "Ok returned under %s" % [a[:120] for a in (oks[0] if oks else [])], pm)
        # R2
        pv = prog.prov(pm)
        uses = []
        for bb, t in pm.calls():
            if M.callee_of(t) in ("std::collections::BTreeMap::entry",) and len(t["args"]) > 1:
                k = M.render(pv.of_operand(t["args"][1]))
                if "node_edges" in k:
                    at = [a for a in C.conditions(prog, pm, bb) if a.kind == "cmp"]
                    guarded = any(a.terms[0] == "Lt" and "node_edges" in M.render(a.terms[1]) and M.render(M.peel(a.terms[2], casts=True)) == "Vec::len(predicate.nodes)" for a in at)
                    uses.append((bb, k, guarded, [a.text for a in at]))
        if ctx.ob("R2", "edge-values-used-as-node-indices", len(uses) >= 1, "%s:%d" % (pm.file, pm.line), "%d uses of an edge value as a map key" % len(uses), pm):
            for bb, k, guarded, at in uses:
                ctx.ob("R2", "edge-target<nodes.len()", guarded, pm.loc(bb),
                       "edge value `%s` is used as a node index under comparisons %s: an edge to a node that does not exist must be rejected (otherwise the parent is no leaf, its output is cached and never checked)" % (k[:120], [a[:120] for a in at]), pm)
    ts = prog.fn("essential_check::solution::parallel_topo_sort")
    if ctx.anchor("R1", "fn parallel_topo_sort", ts):
        ctx.saw(ts)
        tab = M.return_table(prog, ts)
        IN = "essential_check::solution::in_degrees(Vec::len(predicate.nodes), parent_map)"
        cyc = [at for _, v, at in tab if v.startswith("Result::Err{essential_check::solution::PredicateError::InvalidNodeEdges")]
        ok = len(cyc) == 1 and cyc[0] == ["false:std::collections::BTreeMap::is_empty(%s)" % IN, "true:Vec::is_empty(essential_check::solution::find_nodes_with_no_parents(%s))" % IN]
        ctx.ob("R1", "topo-sort:empty-level-while-nodes-remain-is-an-error", ok, "%s:%d" % (ts.file, ts.line), "Err returned under %s" % cyc, ts)
        oks = [at for _, v, at in tab if v.startswith("Result::Ok")]
        ctx.ob("R1", "topo-sort:Ok-only-when-all-nodes-consumed", oks == [["true:std::collections::BTreeMap::is_empty(%s)" % IN]], "%s:%d" % (ts.file, ts.line), "Ok returned under %s" % oks, ts)
    fz = prog.fn("essential_check::solution::find_nodes_with_no_parents")
    if ctx.anchor("R1", "fn find_nodes_with_no_parents", fz):
        ctx.saw(fz)
        for c in prog.closures_of(fz):
            tab = [(v, at) for _, v, at in M.return_table(prog, c)]
            ok = sorted(tab) == sorted([("Option::Some{arg2.0}", ["Eq(0, arg2.1)"]), ("Option::None{}", ["Ne(0, arg2.1)"])])
            ctx.ob("R1", "level=nodes-with-in-degree-0", ok, c.loc(0), "filter table %s" % tab, c)
    # ---- R3 ---------------------------------------------------------------
    rp = prog.fn("essential_check::solution::run_program")
    if ctx.anchor("R3", "fn run_program", rp):
        ctx.saw(rp)
        pv = prog.prov(rp)
        STK = r"<std::vec::Vec<T, A> as std::ops::Index<I>>::index\((.*)\.stack, std::ops::RangeFull::RangeFull\{\}\)"
        got = []
        for bb, b in enumerate(rp.blocks):
            if b["cleanup"]:
                continue
            for st in b["stmts"]:
                if st["k"] == "assign" and st["rv"]["k"] == "aggr" and st["rv"].get("agg") == "adt" and M.strip_generics(st["rv"]["adt"]) == "essential_check::solution::Output":
                    val = M.render(pv.of_rvalue(st["rv"]))
                    at = [a.text for a in C.conditions(prog, rp, bb)]
                    conds = []
                    for a in at:
                        if a in ("true:ctx.leaf", "false:ctx.leaf"):
                            conds.append(a)
                        m = re.match(r"^Eq\((\d+), PtrMetadata\(" + STK + r"\)\)$", a)
                        if m:
                            conds.append("len==%s" % m.group(1))
                        m = re.match(r"^eq:" + STK + r"\[(\d+)\]=(-?\d+)$", a)
                        if m:
                            conds.append("[%s]==%s" % (m.group(2), m.group(3)))
                        if re.match(r"^(Lt|Le|Ne)\(", a) and "PtrMetadata" in a:
                            conds.append("OTHER:" + a[:60])
                    val = re.sub(r"<essential_vm::vm::Vm as std::default::Default>::default\(\)", "vm", val)
                    got.append((val.replace("essential_check::solution::", ""), conds))
        want = [
            ("Output::Leaf{ProgramOutput::DataOutput{DataOutput::Memory{vm.memory}}}", ["true:ctx.leaf", "len==1", "[0]==2"]),
            ("Output::Leaf{ProgramOutput::Satisfied{1}}", ["true:ctx.leaf", "len==1", "[0]==1"]),
            ("Output::Leaf{ProgramOutput::Satisfied{0}}", ["true:ctx.leaf"]),
            ("Output::Parent{std::sync::Arc::new(tuple{vm.stack, vm.memory})}", ["false:ctx.leaf"]),
        ]
        ctx.ob("R3", "leaf-table", sorted(got) == sorted(want), "%s:%d" % (rp.file, rp.line), "outputs %s; specified %s" % (got, want), rp)
        ex = [(bb, t) for bb, t in rp.calls() if M.callee_of(t).startswith("essential_vm::vm::Vm::exec")]
        ctx.ob("R3", "outputs-only-after-successful-execution", len(ex) == 1, rp.loc(ex[0][0]) if ex else rp.loc(0), "%d exec call(s); all outputs are dominated by its success (see table conditions)" % len(ex), rp)
    cp = prog.fn("essential_check::solution::check_predicate::{closure#0}")
    if ctx.anchor("R3", "run closure of check_predicate", cp):
        ctx.saw(cp)
        pv = prog.prov(cp)
        ctxs = [M.render(pv.of_rvalue(st["rv"])) for b in cp.blocks for st in b["stmts"] if st["k"] == "assign" and st["rv"]["k"] == "aggr" and st["rv"].get("variant") == "ProgramCtx"]
        want = "essential_check::solution::ProgramCtx::ProgramCtx{parents, slice::is_empty(Option::expect(essential_types::predicate::Predicate::node_edges(<env>._ref__predicate, (ix as usize)), 'This is already checked'))}"
        ctx.ob("R3", "leaf=node-has-no-edges", ctxs == [want], cp.loc(0), "ProgramCtx %s" % ctxs, cp)
        gp = [[M.render(pv.of_operand(a)) for a in t["args"]] for _, t in cp.calls() if M.callee_decl(t) == "essential_check::solution::GetProgram::get_program"]
        ctx.ob("R4", "program=the-node's-own-address", gp == [["<env>._ref__get_program", "<std::vec::Vec<T, A> as std::ops::Index<I>>::index(<env>._ref__predicate.nodes, (ix as usize)).program_address"]], cp.loc(0), "get_program%s" % gp, cp)
        rets = [M.render(pv.of_rvalue(st["rv"])) for b in cp.blocks for st in b["stmts"] if st["k"] == "assign" and M.Place(st["pl"]).is_local() and M.Place(st["pl"]).local == 0]
        ctx.ob("R4", "result-tagged-with-the-node-index", len(rets) == 1 and rets[0].startswith("tuple{ix, essential_check::solution::run_program("), cp.loc(0), "returns %s" % [r[:80] for r in rets], cp)
    ne = prog.fn("essential_types::predicate::Predicate::node_edges")
    if ctx.anchor("R1", "fn Predicate::node_edges", ne):
        ctx.saw(ne)
        gets = [M.callee_of(t) for _, t in ne.calls() if "slice" in M.callee_of(t) or "Vec" in M.callee_of(t) or "Index" in M.callee_of(t)]
        ctx.ob("R1", "node_edges:checked-lookups-only", not [g for g in gets if "Index" in g], "%s:%d" % (ne.file, ne.line), "lookups %s" % sorted(set(M.short_path(g) for g in gets)), ne)
