"""C06 — checker and decoders are total on untrusted input."""
import re
from .. import mir as M
from .. import panic as P
from .C05 import reachable_fns

META = {
    "all_features": True,
    "explanation": "Panic-path enumeration (same engine as C05) over the call-graph closure of the validation / check entry points of essential-check, "
                   "the predicate / mutation codecs of essential-types, the bytecode codecs of essential-asm and BytecodeMapped: every Assert terminator "
                   "(bounds, overflow, division), every call of a panicking std API and every panic!/unreachable! must be auto-discharged or match a reviewed "
                   "table line whose recorded guards still dominate it. Rule RA additionally requires every allocation sized by a value (with_capacity, "
                   "vec![_; n], reserve, resize) to be sized by the length of an existing collection, a constant, or a value compared against a limit.",
    "not_decided": "unbounded *work* proportional to an attacker-chosen operand (recorded as known finding K5 when expressible), stack exhaustion.",
    "trusted_base": ["std callees not listed in the panic table are total", "postcard / serde / hex / secp256k1 do not panic on the inputs given"],
}

ENTRY = [
    r"^essential_check::solution::(check_set|check_solutions|check_set_state_mutations|check_set_predicates|check_predicate|"
    r"check_and_compute_solution_set|check_and_compute_solution_set_two_pass)$",
    r"^essential_check::predicate::(check|check_contract|check_signed_contract)$",
    r"^essential_types::predicate::Predicate::(decode|encode|node_edges|encoded_size)$",
    r"^essential_types::predicate::encode::(decode_predicate|encode_predicate|predicate_encoded_size)$",
    r"^essential_types::solution::Mutation::(decode_mutation|encode|encode_size)$",
    r"^essential_types::solution::SolutionSet::state_mutations_len$",
    r"^essential_types::solution::(decode|encode)::[a-z_]+$",
    r"^essential_asm::(from_bytes|to_bytes)$",
    r"^essential_asm::effects::(analyze|bytes_contains_any)$",
    r"^<essential_asm::opcode::\w+ as std::convert::TryFrom<u8>>::try_from$",
    r"^<essential_asm::op::\w+ as essential_asm::(TryFromBytes|ToBytes|ToOpcode)>::",
    r"^<essential_asm::opcode::\w+ as essential_asm::ParseOp>::parse_op$",
    r"^essential_vm::bytecode::BytecodeMapped::[a-z_]+$",
    r"^<essential_vm::bytecode::BytecodeMapped.* as ",
    r"^<&'?\w* ?essential_vm::bytecode::BytecodeMapped.* as ",
]

ALLOC = re.compile(r"^((std|alloc)::vec::Vec::(with_capacity|reserve|reserve_exact|resize)|(std|alloc)::vec::from_elem|"
                   r"(std|alloc)::string::String::with_capacity|(std|alloc)::collections::\w+::(with_capacity|reserve))$")


def sized_ok(prog, fn, bb, size_term):
    """RA: is the size operand the length of an existing collection, a constant,
    a min() with something bounded, or compared against a limit constant?"""
    from .. import cond as C
    t = M.peel(size_term, casts=True)
    if t.kind in ("const", "named"):
        return "constant"
    for x in t.walk():
        pass
    s = M.render(t)

    def is_len(u):
        u = M.peel(u, casts=True)
        if u.kind == "call" and re.search(r"(::len|::size_hint|::count)$", u.a):
            return True
        if u.kind == "call" and re.search(r"(checked_div|div_ceil|saturating_sub)$", u.a) and u.sub and is_len(u.sub[0]):
            return True
        if u.kind == "call" and re.search(r"::min$", u.a) and any(is_len(v) or M.peel(v, casts=True).kind in ("const", "named") for v in u.sub):
            return True
        if u.kind == "binop" and u.a in ("Div", "Shr", "BitAnd", "Rem") and is_len(u.sub[0]):
            return True
        if u.kind == "binop" and u.a in ("Add", "Sub", "Mul", "AddWithOverflow", "SubWithOverflow", "MulWithOverflow") and all(
                is_len(v) or M.peel(v, casts=True).kind in ("const", "named") for v in u.sub):
            return True
        if u.kind == "field" and u.a in ("0", "1") and u.sub and u.sub[0].kind in ("binop", "call"):
            return is_len(u.sub[0])
        if u.kind == "try":
            return is_len(u.sub[0])
        return False
    if is_len(t):
        return "length of an existing collection"
    for a in C.conditions(prog, fn, bb):
        if a.kind == "cmp" and a.terms[0] in ("Le", "Lt"):
            lhs, rhs = a.terms[1], a.terms[2]
            if M.render(M.peel(lhs, casts=True)) == s and M.peel(rhs, casts=True).kind in ("named", "const"):
                return "compared against %s" % M.render(rhs)
    return None


def run_RA(ctx, prog, fns, rule="RA"):
    n = 0
    for fn in fns:
        pv = prog.prov(fn)
        for bb, t in fn.calls():
            if fn.blocks[bb]["cleanup"]:
                continue
            c = M.callee_of(t)
            if not ALLOC.match(c):
                continue
            n += 1
            ai = 0 if c.endswith(("with_capacity",)) else 1
            if c.endswith("from_elem"):
                ai = 1
            if ai >= len(t["args"]):
                continue
            size = pv.of_operand(t["args"][ai])
            why = sized_ok(prog, fn, bb, size)
            key = "%s|alloc|%s(%s)" % (fn.path, M.short_path(c), M.render(M.peel(size, casts=True))[:160])
            ctx.ob(rule, key, bool(why), fn.loc(bb),
                   ("allocation sized by %s" % why) if why else
                   "allocation `%s` is sized by `%s`, which is neither a constant, the length of an existing collection, nor compared against a limit" % (c, M.render(size)[:300]), fn)
    return n


def run(ctx):
    prog = ctx.prog
    ctx.rule("PANIC", "every panic-capable construct reachable from the checker / decoder entry points is auto-discharged or a reviewed table line whose guards still dominate it")
    ctx.rule("RA", "untrusted sizes do not size allocations")
    # returning at all: a once-initialiser that waits on the rayon pool can be re-entered by the waiting worker and never return
    from .. import determinism as D_
    ctx.rule("RL", "no initialiser run under OnceLock::get_or_init drives the rayon pool (re-entrant initialisation would block forever)")
    D_.check_once_initialisers(ctx, "RL")
    roots, fns = reachable_fns(ctx, ENTRY, 40)
    sites, n_auto, n_tab = P.decide_sites(ctx, "PANIC", prog, fns, label="checker/decoder")
    ctx.floor("PANIC", "functions reachable from the checker/decoder entry points", len(fns), 300)
    ctx.floor("PANIC", "panic-capable constructs enumerated", len(sites), 150)
    n = run_RA(ctx, prog, fns)
    ctx.floor("RA", "allocation sites sized by a value", n, 6)
