"""C18 — wire, text and serde codecs round-trip every value (structural necessary conditions)."""
import re

from .. import cond as C
from .. import expect as E
from .. import hashing as H
from .. import linear as L
from .. import mir as M

META = {
    "explanation": "Round-trip equality over all values is a value-level statement and is NOT decided. Decided necessary conditions: R1 endianness pair (to_be_bytes / from_be_bytes) and identity "
                   "layouts of the four array converters (byte k <-> byte k mod 8 of word k div 8, read off the constant projections) and of Signature <-> [u8; 65] (id at index 64). R2 human-readable "
                   "branch pairs: every serializer/deserializer pair branches on is_human_readable with the same polarity, hex family on the true side of both, sequence family on the false side of both. "
                   "R3 layout agreement: predicate encoder/size/decoder (as C17-R3); mutation writer emits key_len, key.., value_len, value.. and encode_mutation_size = 2 + |key| + |value|, the reader "
                   "reads the key length at 0, the key from 1, the value length at 1 + key_len, the value from 2 + key_len; the list codec writes/reads the count first and advances by encode_size; "
                   "node_edges returns the empty slice exactly for edge_start == MAX and otherwise edges[edge_start..end] obtained by a checked get. R4 legacy field names: in the derive-generated field "
                   "visitors `data` and `solutions` reach the same field of SolutionSet, `decision_variables` and `predicate_data` the same field of Solution. R5 Display/FromStr pairs use "
                   "hex::encode_upper <-> hex::decode with the length check on the same array size (32, 65).",
    "not_decided": "round-trip equality over all values; behaviour of serde/postcard/hex themselves.",
    "trusted_base": ["hex, serde, postcard"],
}

CV = "essential_types::convert::"


def run(ctx):
    prog = ctx.prog
    for r, t in [("R1", "endianness pair and identity layouts of the fixed-width converters"), ("R2", "human-readable branch pairs"), ("R3", "layout agreement of the binary codecs"),
                 ("R4", "legacy field names"), ("R5", "Display / FromStr pairs"),
                 ("R6", "derived binary framing: every struct writes all its fields unconditionally in declaration order and visit_seq reads one element per field in that order")]:
        ctx.rule(r, t)
    from .. import serdepos
    serdepos.check(ctx, "R6")
    # ---- R1 ---------------------------------------------------------------
    # words <-> hex text: both directions go through the same byte pair (bytes_from_word / word_from_bytes) and the hex crate
    wf = prog.fn("essential_types::convert::words_from_hex_str")
    hf = prog.fn("essential_types::convert::hex_str_from_words")
    if ctx.anchor("R1", "fns words_from_hex_str / hex_str_from_words", wf and hf):
        ctx.saw(wf)
        ctx.saw(hf)
        rows = sorted((v, at) for _, v, at in M.return_table(prog, wf))
        want = sorted([("<propagate error>", ["err(hex::decode(str))"]),
                       ("Result::Ok{std::iter::Iterator::collect(std::iter::Iterator::map(slice::chunks_exact(hex::decode(str)?, 8), {closure#0}))}", ["ok(hex::decode(str))"])])
        cl = [M.render(prog.prov(c).of_local(0)) for c in prog.closures_of(wf)]
        ok = rows == want and len(cl) == 1 and re.match(r"^essential_types::convert::word_from_bytes\(Result::expect\(<T as std::convert::TryInto<U>>::try_into\(chunk\), '.*'\)\)$", cl[0]) is not None
        ctx.ob("R1", "words_from_hex_str=word_from_bytes-of-each-8-byte-chunk-of-hex::decode", ok, "%s:%d" % (wf.file, wf.line), "returns %s; per chunk %s" % ([v[:80] for v, _ in rows], cl), wf)
        rows = [(v, at) for _, v, at in M.return_table(prog, hf)]
        cl = [M.render(prog.prov(c).of_local(0)) for c in prog.closures_of(hf)]
        ok = rows == [("hex::encode(std::iter::Iterator::collect(std::iter::Iterator::flat_map(slice::iter(words), {closure#0})))", [])] and cl == ["essential_types::convert::bytes_from_word(word)"]
        ctx.ob("R1", "hex_str_from_words=hex::encode-of-bytes_from_word-of-each-word", ok, "%s:%d" % (hf.file, hf.line), "returns %s; per word %s" % ([v[:80] for v, _ in rows], cl), hf)
    for fn, callee in [("bytes_from_word", "std::num::<impl i64>::to_be_bytes"), ("word_from_bytes", "std::num::<impl i64>::from_be_bytes")]:
        f = prog.fn(CV + fn)
        if ctx.anchor("R1", "fn " + fn, f):
            cs = [(c, a) for _, c, a in E.calls(prog, f)]
            ctx.ob("R1", fn + "=big-endian", len(cs) == 1 and cs[0][0] == callee and cs[0][1] in (["w"], ["bytes"]), "%s:%d" % (f.file, f.line), "calls %s" % cs, f)
            ctx.saw(f)
    for fn, nw in [("word_4_from_u8_32", 4), ("word_8_from_u8_64", 8)]:
        f = prog.fn(CV + fn)
        if ctx.anchor("R1", "fn " + fn, f):
            ctx.saw(f)
            r = prog.prov(f).of_local(0)
            want = ["essential_types::convert::word_from_bytes(array{%s})" % ", ".join("bytes[%d]" % (8 * i + j) for j in range(8)) for i in range(nw)]
            got = [M.render(x) for x in r.sub] if r.kind == "aggr" else []
            ctx.ob("R1", fn + ":identity-layout", got == want, "%s:%d" % (f.file, f.line), "word i is built from bytes 8i..8i+8 in order: %s" % (got == want), f)
    for fn, nw in [("u8_32_from_word_4", 4), ("u8_64_from_word_8", 8)]:
        f = prog.fn(CV + fn)
        if ctx.anchor("R1", "fn " + fn, f):
            ctx.saw(f)
            r = prog.prov(f).of_local(0)
            want = ["essential_types::convert::bytes_from_word(words[%d])[%d]" % (k // 8, k % 8) for k in range(8 * nw)]
            got = [M.render(x) for x in r.sub] if r.kind == "aggr" else []
            ctx.ob("R1", fn + ":identity-layout", got == want, "%s:%d" % (f.file, f.line), "byte k is byte k mod 8 of word k div 8: %s" % (got == want), f)
    fs = prog.find_fns(r"impl std::convert::From<essential_types::Signature> for \[u8; 65\]>::from$")
    if ctx.anchor("R1", "From<Signature> for [u8; 65]", len(fs) == 1):
        f = fs[0]
        ctx.saw(f)
        r = prog.prov(f).of_local(0)
        got = [M.render(x) for x in r.sub] if r.kind == "aggr" else []
        ctx.ob("R1", "Signature->[u8;65]:sig-bytes-then-id", got == ["sig.0[%d]" % i for i in range(64)] + ["sig.1"], "%s:%d" % (f.file, f.line), "layout ok: %s (last %s)" % (got[:2], got[-1:] if got else None), f)
    fs = prog.find_fns(r"impl std::convert::From<\[u8; 65\]> for essential_types::Signature>::from$")
    if ctx.anchor("R1", "From<[u8; 65]> for Signature", len(fs) == 1):
        f = fs[0]
        ctx.saw(f)
        r = M.render(prog.prov(f).of_local(0))
        want = "essential_types::Signature::Signature{array{%s}, bytes[64]}" % ", ".join("bytes[%d]" % i for i in range(64))
        ctx.ob("R1", "[u8;65]->Signature:sig-bytes-then-id", r == want, "%s:%d" % (f.file, f.line), "builds %s..." % r[:90], f)
    # ---- R2 ---------------------------------------------------------------
    HR = re.compile(r"^(true|false):serde::(ser::Serializer|de::Deserializer)::is_human_readable\(")
    pairs = [
        ("hash", "essential_types::serde::hash::serialize", r"hex::encode_upper$", r"ser::impls::<impl serde::ser::Serialize for \[T\]>::serialize$|Serialize>::serialize$",
         "essential_types::serde::hash::deserialize", r"hex::decode$", r"Deserialize<'de> for std::vec::Vec<T>>::deserialize$|Deserialize<'de>>::deserialize$"),
        ("bytecode", "essential_types::serde::bytecode::serialize", r"hex::serde::serialize$", r"Serialize for \[T\]>::serialize$|Serialize>::serialize$",
         "essential_types::serde::bytecode::deserialize", r"hex::serde::deserialize$", r"Deserialize<'de> for std::vec::Vec<T>>::deserialize$|Deserialize<'de>>::deserialize$"),
    ]
    for name, sfn, s_hex, s_seq, dfn, d_hex, d_seq in pairs:
        s = prog.fn(sfn)
        d = prog.fn(dfn)
        if not ctx.anchor("R2", "serde pair " + name, s and d):
            continue
        ctx.saw(s)
        ctx.saw(d)
        for side, f, hexrx, seqrx in (("ser", s, s_hex, s_seq), ("de", d, d_hex, d_seq)):
            pol = {}
            for bb, c, a in E.calls(prog, f):
                at = [x.text for x in C.conditions(prog, f, bb) if HR.match(x.text)]
                if not at:
                    continue
                p = at[-1].split(":")[0]
                if re.search(hexrx, c):
                    pol.setdefault("hex", set()).add(p)
                elif re.search(seqrx, c) and "String" not in c and "str>" not in c and "string::String" not in "".join(a[:1]):
                    pol.setdefault("seq", set()).add(p)
            ctx.ob("R2", "%s:%s:hex-when-human-readable,sequence-otherwise" % (name, side), pol.get("hex") == {"true"} and "false" in pol.get("seq", set()), "%s:%d" % (f.file, f.line),
                   "hex family under is_human_readable=%s, sequence family under %s" % (sorted(pol.get("hex", [])), sorted(pol.get("seq", []))), f)
    # a deserializer that asks for a *borrowed* &str / &[u8] only works with formats that can lend the input; owned or
    # transient strings (readers, serde_json::Value, escapes) fail, while the matching serializer writes them happily
    borrowed = []
    n_de = 0
    for f in prog.fns_by_crate["essential_types"]:
        if f.kind == "Const":
            continue
        for bb, t in f.calls():
            c = M.callee_of(t)
            if re.search(r"Deserialize<'de>( for .*)?>::deserialize$|serde::de::Deserialize::deserialize$", c):
                n_de += 1
                if re.search(r"Deserialize<'de> for &'a (str|\[u8\]|std::path::Path)>::deserialize$", c):
                    borrowed.append((f.path, f.loc(bb), c))
    ctx.ob("R2", "deserializers-accept-owned-input", not borrowed, borrowed[0][1] if borrowed else "crates/types/src/serde", "%d Deserialize::deserialize calls in essential-types; borrowed-only targets: %s" % (n_de, [(a, c[-60:]) for a, _, c in borrowed]))
    ctx.floor("R2", "Deserialize::deserialize calls inspected", n_de, 4)
    sig_s = prog.one_fn(r"impl serde::ser::Serialize for essential_types::Signature>::serialize$")
    sig_d = prog.one_fn(r"impl serde::de::Deserialize<'de> for essential_types::Signature>::deserialize$")
    if ctx.anchor("R2", "serde impls of Signature", sig_s and sig_d):
        ctx.saw(sig_s)
        ctx.saw(sig_d)
        pol = {}
        for bb, c, a in E.calls(prog, sig_s):
            at = [x.text for x in C.conditions(prog, sig_s, bb) if HR.match(x.text)]
            if at and re.search(r"hex::encode_upper$", c):
                pol["hex"] = at[-1].split(":")[0]
            if at and re.search(r"Serializer::serialize_seq$", c):
                pol["seq"] = at[-1].split(":")[0]
                pol["seq_len"] = a[1] if len(a) > 1 else ""
        ctx.ob("R2", "Signature:ser:hex-of-65-bytes|sequence-of-65", pol.get("hex") == "true" and pol.get("seq") == "false" and "AddWithOverflow(" in pol.get("seq_len", "") and ", 1)" in pol.get("seq_len", ""),
               "%s:%d" % (sig_s.file, sig_s.line), "branches %s" % pol, sig_s)
        cs = [(c, a) for _, c, a in E.calls(prog, sig_d) if c.startswith("essential_types::")]
        ctx.ob("R2", "Signature:de:via-hash::deserialize::<65>", [c for c, _ in cs][:1] == ["essential_types::serde::hash::deserialize"] and any("[u8; 65]" in l["ty"] for l in sig_d.locals),
               "%s:%d" % (sig_d.file, sig_d.line), "calls %s" % [c for c, _ in cs], sig_d)
    for ty, sf, df in [("ContentAddress", r"impl serde::ser::Serialize for essential_types::ContentAddress>::serialize$", r"impl serde::de::Deserialize<'de> for essential_types::ContentAddress>::deserialize$")]:
        s = prog.one_fn(sf)
        d = prog.one_fn(df)
        if ctx.anchor("R2", "serde impls of " + ty, s and d):
            cs = [c for _, c, _ in E.calls(prog, s) if c.startswith("essential_types::")]
            cd = [c for _, c, _ in E.calls(prog, d) if c.startswith("essential_types::")]
            ctx.ob("R2", ty + ":both-sides-use-serde::hash", cs == ["essential_types::serde::hash::serialize"] and cd == ["essential_types::serde::hash::deserialize"], "%s:%d" % (s.file, s.line), "ser %s / de %s" % (cs, cd), s)
    # ---- R3 ---------------------------------------------------------------
    H.layout(ctx, "R3")
    em = prog.fn("essential_types::solution::encode::encode_mutation")
    if ctx.anchor("R3", "fn encode_mutation", em):
        ctx.saw(em)
        parts = [M.render(M.peel(p, transparent=False)) for p in H.flatten_chain(prog.prov(em).of_local(0))]
        LEN = lambda x: "std::iter::once(Result::unwrap_or(<T as std::convert::TryInto<U>>::try_into(Vec::len(mutation.%s)), std::num::<impl i64>::MAX))" % x
        DATA = lambda x: "std::iter::Iterator::copied(slice::iter(mutation.%s))" % x
        ctx.ob("R3", "mutation-writer:key_len,key,value_len,value", parts == [LEN("key"), DATA("key"), LEN("value"), DATA("value")], "%s:%d" % (em.file, em.line), "emits %s" % [p[:70] for p in parts], em)
    es = prog.fn("essential_types::solution::encode::encode_mutation_size")
    if ctx.anchor("R3", "fn encode_mutation_size", es):
        ctx.saw(es)
        form = L.lin(prog, prog.prov(es).of_local(0))
        ctx.ob("R3", "mutation-size=2+|key|+|value|", form == {1: 2, "Vec::len(mutation.key)": 1, "Vec::len(mutation.value)": 1}, "%s:%d" % (es.file, es.line), "size = %s" % L.show(form), es)
    dm = prog.fn("essential_types::solution::decode::decode_mutation")
    if ctx.anchor("R3", "fn decode_mutation", dm):
        ctx.saw(dm)
        pv = prog.prov(dm)
        oks = [pv.of_rvalue(st["rv"]) for b in dm.blocks for st in b["stmts"] if st["k"] == "assign" and st["rv"]["k"] == "aggr" and st["rv"].get("variant") == "Mutation"]
        good = False
        detail = "no Mutation aggregate"
        if len(oks) == 1 and len(oks[0].sub) == 2:
            def sym(x):
                r = M.render(x)
                if r.startswith("Result::unwrap_or(<T as std::convert::TryInto<U>>::try_into(bytes[0])"):
                    return "k"
                if r.startswith("Result::unwrap_or(<T as std::convert::TryInto<U>>::try_into(bytes["):
                    # the index of the value-length word
                    inner = x.sub[0].sub[0] if x.sub and x.sub[0].sub else None
                    return "v"
                return r
            rngs = []
            for fld in oks[0].sub:
                t = M.peel(fld, transparent=False)
                # slice::to_vec(index(bytes, Range{a, b}))
                rg = None
                for y in t.walk():
                    if y.kind == "aggr" and y.a.endswith("Range::Range"):
                        rg = y
                        break
                rngs.append([L.show(L.lin(prog, e, sym)) for e in rg.sub] if rg is not None else None)
            # where is the value length read?
            vl = None
            cands = [y for y in oks[0].sub[1].walk() if y.kind == "index" and len(y.sub) > 1 and M.render(y.sub[0]) == "bytes" and M.render(y.sub[1]) != "0"]
            if cands:
                vl = L.show(L.lin(prog, max(cands, key=lambda y: len(M.render(y))).sub[1], sym))
            good = rngs == [["1", "k + 1"], ["k + 2", "k + v + 2"]] and vl == "k + 1"
            detail = "key range %s, value range %s, value length read at index %s" % (rngs[0], rngs[1], vl)
        ctx.ob("R3", "mutation-reader:key@1..1+k,value_len@1+k,value@2+k..", good, "%s:%d" % (dm.file, dm.line), detail, dm)
    ems = prog.fn("essential_types::solution::encode::encode_mutations")
    if ctx.anchor("R3", "fn encode_mutations", ems):
        r = M.render(prog.prov(ems).of_local(0))
        want = "std::iter::Iterator::chain(std::iter::once(Result::unwrap_or(<T as std::convert::TryInto<U>>::try_into(slice::len(mutations)), std::num::<impl i64>::MAX)), std::iter::Iterator::flat_map(slice::iter(mutations), fn:essential_types::solution::encode::encode_mutation))"
        ctx.ob("R3", "mutations-writer:count-then-each-mutation", r == want, "%s:%d" % (ems.file, ems.line), "emits %s" % r[:200], ems)
        ctx.saw(ems)
    dms = prog.fn("essential_types::solution::decode::decode_mutations")
    if ctx.anchor("R3", "fn decode_mutations", dms):
        ctx.saw(dms)
        pv = prog.prov(dms)
        i_defs = set()
        for l, nm in dms.names.items():
            t = pv.of_local(l)
            if t.kind == "phi" and any(M.render(a) == "1" for a in t.sub) and dms.local_ty(l) == "usize":
                i_defs |= {M.render(a) for a in t.sub}
        E.has_call(ctx, "R3", "mutations-reader:each-mutation-from-bytes[i..]", prog, dms, r"decode::decode_mutation$", [r"^\(slice::get\(bytes, std::ops::RangeFrom::RangeFrom\{var:\w+\}\) as Some\)\.0$"])
        ok = "1" in i_defs and any(re.match(r"^AddWithOverflow\(var:\w+, essential_types::solution::Mutation::encode_size\(essential_types::solution::decode::decode_mutation\(.*\)\?\)\)\.0$", x) for x in i_defs) and len(i_defs) == 2
        finals = [at for _, v, at in M.return_table(prog, dms) if v.startswith("Result::Ok") and at and not at[-1].startswith("Eq(0,")]
        ctx.ob("R3", "mutations-reader:stops-exactly-at-the-end-of-the-input", len(finals) == 1 and re.match(r"^Le\(slice::len\(bytes\), var:\w+\)$", finals[0][-1]) is not None,
               "%s:%d" % (dms.file, dms.line), "the list is returned under %s" % [f_[-1][:100] for f_ in finals], dms)
        ctx.ob("R3", "mutations-reader:cursor-starts-at-1-and-advances-by-encode_size", ok, "%s:%d" % (dms.file, dms.line), "cursor i is assigned %s" % sorted(x[:110] for x in i_defs), dms)
    node_edges_rules(ctx, prog, "R3")
    decode_mutation_guards(ctx, prog, "R3")
    # ---- R4 ---------------------------------------------------------------
    for ty, groups in [("SolutionSet", [{"data", "solutions"}]), ("Solution", [{"decision_variables", "predicate_data"}, {"predicate_to_solve"}, {"state_mutations"}])]:
        vs = [f for f in prog.fns.values() if re.search(r"Deserialize<'de> for essential_types::solution::%s>::deserialize::__FieldVisitor as serde::de::Visitor<'de>>::visit_str$" % ty, f.path)]
        if not ctx.anchor("R4", "field visitor of " + ty, len(vs) == 1):
            continue
        f = vs[0]
        ctx.saw(f)
        m = string_to_field(prog, f)
        inv = {}
        for s, fld in m.items():
            inv.setdefault(fld, set()).add(s)
        got = sorted(inv.values(), key=lambda x: sorted(x))
        ctx.ob("R4", ty + ":accepted-names", got == sorted(groups, key=lambda x: sorted(x)), "%s:%d" % (f.file, f.line), "names per field: %s; expected %s" % (got, groups), f)
    # the serializer writes only the new names
    for ty, names in [("SolutionSet", ["solutions"]), ("Solution", ["predicate_to_solve", "predicate_data", "state_mutations"])]:
        ss = [f for f in prog.fns.values() if re.search(r"impl serde::ser::Serialize for essential_types::solution::%s>::serialize$" % ty, f.path)]
        if ctx.anchor("R4", "serializer of " + ty, len(ss) == 1):
            f = ss[0]
            strs = []
            for _, c, a in E.calls(prog, f):
                if c.endswith("SerializeStruct::serialize_field"):
                    strs.append(a[1].strip("'\""))
            ctx.ob("R4", ty + ":written-names", strs == names, "%s:%d" % (f.file, f.line), "serialize_field names %s" % strs, f)
            ctx.saw(f)
    # ---- R5 ---------------------------------------------------------------
    for ty, n in [("ContentAddress", 32), ("Signature", 65)]:
        d = prog.one_fn(r"essential_types::fmt::<impl std::fmt::Display for essential_types::%s>::fmt$" % ty)
        p = prog.one_fn(r"essential_types::fmt::<impl std::str::(traits::)?FromStr for essential_types::%s>::from_str$" % ty)
        if not ctx.anchor("R5", "Display/FromStr of " + ty, d and p):
            continue
        ctx.saw(d)
        ctx.saw(p)
        dc = [c for _, c, _ in E.calls(prog, d) if c.startswith("hex::")]
        pc = [(c, a) for _, c, a in E.calls(prog, p) if c.startswith("hex::")]
        arr = any(l["ty"] == "[u8; %d]" % n for l in p.locals)
        errs = [v for _, v in E.aggregates(prog, p.__class__ and p) if "InvalidStringLength" in v]
        inner = [v for c in prog.closures_of(p) for _, v in E.aggregates(prog, c) if "InvalidStringLength" in v]
        allc = [(c, a) for _, c, a in E.calls(prog, d)]
        whole = {"ContentAddress": r"^self\.0$", "Signature": r"^<T as std::convert::Into<U>>::into\(<essential_types::Signature as std::clone::Clone>::clone\(self\)\)$"}[ty]
        enc = [a for c, a in allc if c == "hex::encode_upper"]
        fmts = [c for c, _ in allc if re.search(r"std::fmt::(Display|UpperHex|LowerHex|Debug)>::fmt$|fmt::Formatter::write_fmt$|fmt::Arguments", c)]
        ctx.ob("R5", "%s:display-is-the-upper-hex-of-all-%d-bytes" % (ty, n), len(enc) == 1 and re.match(whole, enc[0][0]) is not None and fmts == ["<std::string::String as std::fmt::Display>::fmt"],
               "%s:%d" % (d.file, d.line), "Display encodes %s and writes through %s (one hex string of the whole value, nothing appended)" % ([a[0][:70] for a in enc], fmts), d)
        ctx.ob("R5", "%s:encode_upper<->decode,length=%d" % (ty, n), dc == ["hex::encode_upper"] and [c for c, _ in pc] == ["hex::decode"] and pc[0][1] == ["s"] and arr and bool(errs or inner),
               "%s:%d" % (p.file, p.line), "Display uses %s; FromStr uses %s into [u8; %d]: %s, wrong length -> InvalidStringLength: %s" % (dc, [c for c, _ in pc], n, arr, bool(errs or inner)), p)


def string_to_field(prog, f):
    """Map every string literal compared in a derive-generated visit_str to the __Field variant it selects."""
    pv = prog.prov(f)
    out = {}
    for bb, t in f.calls():
        if not M.callee_of(t).endswith("PartialEq for str>::eq"):
            continue
        s = pv.of_operand(t["args"][1])
        lit = M.peel(s).a if M.peel(s).kind == "str" else None
        nxt = t["target"]
        tt = f.term(nxt)
        if lit is None or tt["k"] != "switch":
            continue
        # true edge
        true_tgt = tt["otherwise"] if [int(v) for v, _ in tt["arms"]] == [0] else [b for v, b in tt["arms"] if int(v) != 0][0]
        b = true_tgt
        seen = 0
        fld = None
        while b is not None and seen < 6 and fld is None:
            seen += 1
            for st in f.blocks[b]["stmts"]:
                if st["k"] == "assign" and st["rv"]["k"] == "aggr" and st["rv"].get("agg") == "adt" and st["rv"]["adt"].endswith("__Field"):
                    fld = st["rv"]["variant"]
            s2 = f.succs(b)
            b = s2[0] if len(s2) == 1 else None
        if fld:
            out[lit] = fld
    return out


def decode_mutation_guards(ctx, prog, rid):
    """The single-mutation reader rejects exactly: fewer than 2 words, a negative key length, a key running past the input,
    a negative value length, a value running past the input; in particular a key or value of length 0 is accepted."""
    f = prog.fn("essential_types::solution::decode::decode_mutation")
    if not ctx.anchor(rid, "fn decode_mutation", f):
        return
    ctx.saw(f)
    rows = [(v, at) for _, v, at in M.return_table(prog, f)]
    sig = []
    for v, at in rows:
        name = re.sub(r"^Result::(Ok|Err)\{essential_types::solution::(decode::MutationDecodeError::|Mutation::)?(\w+).*$", r"\3", v)
        last = re.sub(r"\(.*", "", at[-1]) if at else ""
        sig.append((name, len(at), last))
    want = [("WordsTooShort", 1, "Lt"), ("NegativeKeyLength", 2, "Lt"), ("WordsTooShort", 3, "Le"), ("NegativeValueLength", 4, "Lt"), ("WordsTooShort", 5, "Lt"), ("Mutation", 5, "Le")]
    neg = [at[-1] for v, at in rows if "NegativeKeyLength" in v]
    ctx.ob(rid, "decode_mutation:rejects-exactly-the-five-malformed-shapes", sorted(sig) == sorted(want) and neg == ["Lt(bytes[0], 0)"], "%s:%d" % (f.file, f.line),
           "returns %s; negative-key test %s (a length of 0 is a valid empty key)" % (sig, neg), f)


def node_edges_rules(ctx, prog, rid):
    """The edge list of a node: empty exactly for leaves, otherwise the *checked* sub-range edges[start..end]
    (an inverted or out-of-range range is None, which the graph validation turns into an error)."""
    ne = prog.fn("essential_types::predicate::Predicate::node_edges")
    if ctx.anchor(rid, "fn node_edges", ne):
        ctx.saw(ne)
        tab = [(re.sub(r"var:\w+", "var:e_end", v), [re.sub(r"var:\w+", "var:e_end", a) for a in at]) for _, v, at in M.return_table(prog, ne) if v != "<propagate error>"]
        N = "slice::get(self.nodes, node_ix)"
        want = [("Option::Some{array{}}", ["ok(%s)" % N, "Eq(%s?.edge_start, std::num::<impl u16>::MAX)" % N]),
                ("Option::Some{slice::get(self.edges, std::ops::Range::Range{int::from(%s?.edge_start), var:e_end})?}" % N,
                 ["ok(%s)" % N, "Ne(%s?.edge_start, std::num::<impl u16>::MAX)" % N, "ok(slice::get(self.edges, std::ops::Range::Range{int::from(%s?.edge_start), var:e_end}))" % N])]
        ctx.ob(rid, "node_edges:empty-for-leaves,checked-sub-range-otherwise", sorted(tab) == sorted(want), "%s:%d" % (ne.file, ne.line), "table %s" % [(v[:80], [a[:60] for a in at]) for v, at in tab], ne)
        pv = prog.prov(ne)
        ends = set()
        for l, nm in ne.names.items():
            t = pv.of_local(l)
            if t.kind == "phi" and ne.local_ty(l) == "usize":
                ends |= {M.render(a) for a in t.sub}
        NX = "slice::get(self.nodes, usize::saturating_add(node_ix, 1))"
        ctx.ob(rid, "node_edges:end=next-non-leaf-start-or-edges.len()", ends == {"Vec::len(self.edges)", "int::from((%s as Some).0.edge_start)" % NX}, "%s:%d" % (ne.file, ne.line), "e_end is %s" % sorted(ends), ne)
