"""Fact extraction orchestration and loading.

Facts are produced by /verif/driver (a rustc_private driver) injected with
RUSTC_WORKSPACE_WRAPPER under `cargo +nightly check` in the repository, so the
analysed program is the type-checked program of the real build.  Nothing from
the repository is executed.  Facts are cached by a hash of the working tree.
"""
import fcntl
import glob
import hashlib
import json
import os
import re
import shutil
import subprocess
import sys
import time

VERIF = os.path.dirname(os.path.dirname(os.path.abspath(__file__)))
REPO = os.environ.get("ESSB_REPO", "/repo")
CACHE = os.path.join(VERIF, ".cache")
DRIVER_DIR = os.path.join(VERIF, "driver")
DRIVER_BIN = os.path.join(DRIVER_DIR, "target", "debug", "essb-facts")

WORKSPACE_CRATES = [
    "essential_asm", "essential_asm_gen", "essential_asm_spec", "essential_check",
    "essential_hash", "essential_lock", "essential_sign", "essential_types", "essential_vm",
]

# hand-counted floors (functions+closures per crate, default features, pinned tree)
FN_FLOORS = {}


class BuildError(Exception):
    pass


def _src_files(repo):
    out = []
    for root, dirs, files in os.walk(repo):
        dirs[:] = [d for d in dirs if d not in ("target", ".git")]
        for f in files:
            if f.endswith((".rs", ".yml", ".yaml", ".toml", ".lock")):
                out.append(os.path.join(root, f))
    out.sort()
    return out


def tree_hash(repo=None):
    repo = repo or REPO
    h = hashlib.sha256()
    for p in _src_files(repo):
        h.update(os.path.relpath(p, repo).encode())
        h.update(b"\0")
        with open(p, "rb") as fh:
            h.update(hashlib.sha256(fh.read()).digest())
    return h.hexdigest()[:20]


def _driver_sources_hash():
    h = hashlib.sha256()
    for p in sorted(glob.glob(os.path.join(DRIVER_DIR, "src", "*.rs")) + [os.path.join(DRIVER_DIR, "Cargo.toml")]):
        with open(p, "rb") as fh:
            h.update(fh.read())
    return h.hexdigest()[:12]


def sysroot():
    return subprocess.check_output(["rustc", "+nightly", "--print", "sysroot"], text=True).strip()


def build_driver(log=sys.stderr):
    stamp = os.path.join(DRIVER_DIR, "target", ".built-" + _driver_sources_hash())
    if os.path.exists(DRIVER_BIN) and os.path.exists(stamp):
        return
    env = dict(os.environ, CARGO_NET_OFFLINE="true")
    r = subprocess.run(["cargo", "+nightly", "build", "--offline"], cwd=DRIVER_DIR, env=env,
                       stdout=subprocess.PIPE, stderr=subprocess.STDOUT, text=True)
    if r.returncode != 0:
        log.write(r.stdout)
        raise BuildError("driver build failed")
    for old in glob.glob(os.path.join(DRIVER_DIR, "target", ".built-*")):
        os.unlink(old)
    open(stamp, "w").close()


CONFIGS = {
    "default": [],
    "all-features": ["--all-features"],
}


def _prune_cache(keep=8):
    d = os.path.join(CACHE, "facts")
    if not os.path.isdir(d):
        return
    ents = [(os.path.getmtime(os.path.join(d, e)), e) for e in os.listdir(d)]
    ents.sort(reverse=True)
    for _, e in ents[keep:]:
        shutil.rmtree(os.path.join(d, e), ignore_errors=True)


def ensure_facts(config="default", repo=None, log=sys.stderr):
    """Return the directory holding one fact file per workspace crate for the
    current working tree of `repo` (extracting them if not cached)."""
    repo = repo or REPO
    os.makedirs(os.path.join(CACHE, "facts"), exist_ok=True)
    key = "%s-%s-%s" % (tree_hash(repo), _driver_sources_hash(), config)
    if repo != REPO:
        key += "-" + hashlib.sha256(repo.encode()).hexdigest()[:6]
    out = os.path.join(CACHE, "facts", key)
    if os.path.exists(os.path.join(out, ".complete")):
        os.utime(out)
        return out
    lock_path = os.path.join(CACHE, "lock-" + config)
    with open(lock_path, "w") as lk:
        fcntl.flock(lk, fcntl.LOCK_EX)
        if os.path.exists(os.path.join(out, ".complete")):
            return out
        t0 = time.time()
        build_driver(log)
        tgt = os.environ.get("ESSB_TARGET_DIR") or os.path.join(CACHE, "target-" + config)
        # cargo's freshness cache would skip the wrapper for unchanged members
        for fp in glob.glob(os.path.join(tgt, "debug", ".fingerprint", "essential-*")):
            shutil.rmtree(fp, ignore_errors=True)
        tmp = out + ".tmp%d" % os.getpid()
        shutil.rmtree(tmp, ignore_errors=True)
        os.makedirs(tmp)
        env = dict(os.environ)
        env.update({
            "ESSB_FACTS_DIR": tmp,
            "LD_LIBRARY_PATH": os.path.join(sysroot(), "lib"),
            "RUSTFLAGS": "-Zmir-opt-level=0 -Awarnings",
            "RUSTC_WORKSPACE_WRAPPER": DRIVER_BIN,
            "CARGO_TARGET_DIR": tgt,
            "CARGO_NET_OFFLINE": "true",
        })
        env.pop("RUSTC_WRAPPER", None)
        cmd = ["cargo", "+nightly", "check", "--offline", "--workspace"] + CONFIGS[config]
        r = subprocess.run(cmd, cwd=repo, env=env, stdout=subprocess.PIPE, stderr=subprocess.STDOUT, text=True)
        if r.returncode != 0:
            shutil.rmtree(tmp, ignore_errors=True)
            log.write(r.stdout[-6000:])
            raise BuildError("the repository does not type-check under `%s`; no verdict" % " ".join(cmd))
        _select(tmp)
        with open(os.path.join(tmp, ".meta.json"), "w") as fh:
            json.dump({"config": config, "cmd": " ".join(cmd), "extract_s": round(time.time() - t0, 1),
                       "tree_hash": tree_hash(repo)}, fh)
        open(os.path.join(tmp, ".complete"), "w").close()
        shutil.rmtree(out, ignore_errors=True)
        os.rename(tmp, out)
        _prune_cache()
    return out


def _select(d):
    """Several units of one crate may have been compiled (host units for the
    proc-macro and its dependencies next to the checked units).  Keep, per
    crate, the unit that essential_check / essential_vm link against (walking
    --extern edges, never through the proc-macro); rename to <crate>.json."""
    units = {}
    for p in glob.glob(os.path.join(d, "*.json")):
        with open(p) as fh:
            data = json.load(fh)
        units.setdefault(data["crate"], {})[data["extra_filename"]] = (p, data["crate_type"], data["externs"])
    chosen = {}

    def choose(c, ef):
        if c in chosen:
            return
        chosen[c] = ef
        p, ctype, externs = units[c][ef]
        if ctype == "proc-macro":
            return
        for e in externs:
            m = re.match(r"(?:[a-z,]+:)?(essential_[a-z_]+)=.*/lib(essential_[a-z_]+)(-[0-9a-f]+)\.(?:rmeta|rlib|so)$", e)
            if m and m.group(2) in units and m.group(3) in units[m.group(2)]:
                choose(m.group(2), m.group(3))

    for c in ["essential_check", "essential_vm", "essential_sign", "essential_hash", "essential_asm",
              "essential_types", "essential_lock", "essential_asm_spec", "essential_asm_gen"] + sorted(units):
        if c in units and c not in chosen:
            choose(c, sorted(units[c])[0])
    for c, us in units.items():
        for ef, (p, _, _) in us.items():
            if ef == chosen[c]:
                os.rename(p, os.path.join(d, c + ".json"))
            else:
                os.unlink(p)


def load_crate(facts_dir, crate):
    p = os.path.join(facts_dir, crate + ".json")
    if not os.path.exists(p):
        raise BuildError("no fact file for crate %s (the build did not cover it)" % crate)
    with open(p) as fh:
        return json.load(fh)
