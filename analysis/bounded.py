"""Bounded-container rules (C05 RB1-RB3, shared with C10/C11): every writer of
the inner Vec of Stack / Memory / Repeat / Vm.parent_memory is enumerated; growth
is only reachable under the right comparison against the right limit constant."""
import re

from . import cond as C
from . import mir as M

CONTAINERS = [
    # (label, adt path, field name, limit const path, documented limit)
    ("stack", "essential_vm::stack::Stack", "0", "essential_vm::stack::Stack::SIZE_LIMIT", 4096),
    ("memory", "essential_vm::memory::Memory", "0", "essential_vm::memory::Memory::SIZE_LIMIT", 10240),
    ("repeat", "essential_vm::repeat::Repeat", "stack", "essential_vm::stack::Stack::SIZE_LIMIT", 4096),
]

# the compute-depth container has no wrapper type: it is identified by its type
DEPTH = ("compute-depth", r"^&mut std::vec::Vec<std::sync::Arc<essential_vm::memory::Memory>>$",
         "essential_vm::compute::MAX_COMPUTE_DEPTH", 1)

GROW_ONE = re.compile(r"^(std|alloc)::vec::Vec::(push|insert|push_within_capacity)$")
GROW_TO = re.compile(r"^(std|alloc)::vec::Vec::(resize|resize_with)$")
GROW_MANY = re.compile(r"^((std|alloc)::vec::Vec::(append|extend_from_slice|extend_from_within|splice|extend_one)|"
                       r"<(std|alloc)::vec::Vec<.*> as (std|core)::iter::Extend<.*>>::extend|(std|alloc)::vec::<impl (std|core)::iter::Extend<.*> for .*>::extend.*)$")
NON_GROW = re.compile(
    r"^((std|alloc)::vec::Vec::(pop|truncate|clear|shrink_to_fit|shrink_to|swap_remove|remove|drain|split_off|retain|retain_mut|dedup.*|"
    r"reserve|reserve_exact|as_mut_slice|as_mut_ptr|last_mut|first_mut|iter_mut|get_mut|len|is_empty|capacity)"
    r"|<(std|alloc)::vec::Vec<.*> as (std|core)::ops::(DerefMut|IndexMut<.*>)>::(deref_mut|index_mut)"
    r"|(std|core)::slice::<impl \[T\]>::(swap|copy_within|copy_from_slice|get_mut|last_mut|first_mut|iter_mut|fill|reverse|sort.*|split_at_mut|chunks.*_mut|rotate_.*)"
    r"|(std|core)::mem::take)$")


def _field_of(t, adt, field):
    """Does provenance term t denote (a reference to) adt.field ?"""
    t = M.peel(t, transparent=True)
    return t.kind == "field" and t.a == field and t.meta and t.meta.get("of") == adt


def _len_of_container(t, adt, field):
    """Is t `Vec::len(container.field)` or `len(container)` via Deref<[T]> ?"""
    t = M.peel(t, casts=True)
    if t.kind == "call" and re.search(r"(Vec::len|<impl \[T\]>::len)$", t.a) and t.sub:
        x = M.peel(t.sub[0])
        if _field_of(x, adt, field):
            return True
        # self.len() through Deref<Target=[Word]> on the wrapper itself
        if x.kind in ("param",) and x.a == "self":
            return True
        if x.kind == "call" and M.DEREF_CALLS.match(x.a):
            return True
    return False


def writers(prog, label, adt, field):
    """Yield (fn, bb, callee, recv_term, call_terminator) for every call receiving
    `&mut adt.field`, and (fn, bb, 'construct'|'assign', term, stmt) for constructions."""
    for fn in prog.fns.values():
        if fn.crate in ("essential_asm_gen", "essential_asm_spec"):
            continue
        if fn.exp and re.search(r"as std::(clone::Clone|default::Default|cmp::PartialEq|fmt::Debug)>::", fn.path):
            continue
        pv = None
        for bb, b in enumerate(fn.blocks):
            if b["cleanup"]:
                continue
            for si, st in enumerate(b["stmts"]):
                if st["k"] != "assign":
                    continue
                rv = st["rv"]
                if rv["k"] == "aggr" and rv["agg"] == "adt" and M.strip_generics(rv["adt"]) == adt:
                    pv = pv or prog.prov(fn)
                    names = rv.get("fields", [])
                    if field in names:
                        i = names.index(field)
                        if i < len(rv["ops"]):
                            yield fn, bb, "construct", pv.of_operand(rv["ops"][i]), st
                # direct assignment to the field
                pl = M.Place(st["pl"])
                if pl.proj and pl.proj[-1]["k"] == "field" and pl.proj[-1].get("of") == adt and pl.proj[-1]["name"] == field:
                    pv = pv or prog.prov(fn)
                    yield fn, bb, "assign", pv.of_rvalue(rv), st
            t = b["term"]
            if t["k"] != "call":
                continue
            tys = t.get("arg_tys", [])
            for ai, a in enumerate(t["args"]):
                if ai >= len(tys) or not M.norm_ty(tys[ai]).startswith("&mut "):
                    continue
                pv = pv or prog.prov(fn)
                term = pv.of_operand(a)
                if _field_of(term, adt, field):
                    yield fn, bb, M.callee_of(t), term, t


def check_container(ctx, rule, prog, label, adt, field, limit_path, limit_doc):
    limit_val = prog.const_value(limit_path)
    ctx.ob(rule, "%s:limit-constant" % label, limit_val == limit_doc, limit_path,
           "%s evaluates to %s, documented bound %d" % (limit_path, limit_val, limit_doc))
    a = prog.adts.get(adt)
    if not ctx.anchor(rule, "struct %s" % adt, a):
        return
    fld = [f for f in a["variants"][0]["fields"] if f["name"] == field]
    if not ctx.anchor(rule, "field %s.%s" % (adt, field), fld):
        return
    if label != "compute-depth":
        ctx.ob(rule, "%s:field-private" % label, fld[0]["vis"].startswith("Restricted"), adt,
               "visibility of %s.%s: %s" % (adt, field, fld[0]["vis"]))
        # no impl that hands out &mut to the inner vector
        for i in prog.impls:
            if M.norm_ty(i["self"]).replace("essential_vm::", "").split("<")[0] in (adt.split("::")[-1], adt) or M.norm_ty(i["self"]) == adt:
                td = i.get("trait_def", "")
                bad = re.search(r"ops::(DerefMut|IndexMut)|convert::AsMut|borrow::BorrowMut|iter::Extend", td)
                if bad:
                    ctx.ob(rule, "%s:no-mutable-view:%s" % (label, td), False, "%s:%d" % (i["span"]["file"], i["span"]["line"]),
                           "impl %s for %s hands out mutable access to the bounded vector" % (td, i["self"]))
    n = 0
    for fn, bb, what, term, t in writers(prog, label, adt, field):
        n += 1
        ctx.saw(fn)
        where = fn.loc(bb)
        atoms = C.conditions(prog, fn, bb)
        texts = [x.text for x in atoms]
        key = "%s:%s:%s" % (label, fn.path, what)
        if what in ("construct", "assign"):
            src = M.peel(term)
            if src.kind == "call" and re.search(r"(Vec::new|Default>::default|default::Default::default|mem::take)$", src.a):
                ctx.ob(rule, key, True, where, "constructed empty", fn)
                continue
            if src.kind == "call" and re.search(r"Clone>::clone|clone::Clone::clone$", src.a) and src.sub and _field_of(src.sub[0], adt, field):
                ctx.ob(rule, key, True, where, "clone of an existing bounded vector", fn)
                continue
            ok = any(x.kind == "cmp" and x.terms[0] == "Le" and _is_limit(x.terms[2], limit_path)
                     and _is_len_of(x.terms[1], src) for x in atoms)
            ctx.ob(rule, key, ok, where,
                   "wrapper built from `%s`; needs Le(len(that), %s) on every path; dominating: %s" % (M.render(src), limit_path, texts), fn)
            continue
        if NON_GROW.match(what):
            ctx.ob(rule, key, True, where, "non-growing mutator %s" % what, fn)
            continue
        if GROW_ONE.match(what):
            ok = any(x.kind == "cmp" and x.terms[0] == "Lt" and _is_limit(x.terms[2], limit_path)
                     and _len_of_container(x.terms[1], adt, field) for x in atoms)
            ctx.ob(rule, key, ok, where,
                   "%s grows by one; needs Lt(len, %s) on every path (so len+1 <= limit); dominating: %s" % (what, limit_path, texts), fn)
            continue
        if GROW_TO.match(what):
            new_len = M.render(M.peel(prog.prov(fn).of_operand(t["args"][1]), casts=True))
            ok = any(x.kind == "cmp" and x.terms[0] == "Le" and _is_limit(x.terms[2], limit_path)
                     and M.render(M.peel(x.terms[1], casts=True)) == new_len for x in atoms)
            ctx.ob(rule, key, ok, where,
                   "%s to `%s`; needs Le(that, %s) on every path; dominating: %s" % (what, new_len, limit_path, texts), fn)
            continue
        if GROW_MANY.match(what):
            ctx.ob(rule, key, False, where, "unbounded growth through %s" % what, fn)
            continue
        ctx.ob(rule, key, False, where, "unknown mutator `%s` receives &mut to the bounded vector" % what, fn)
    return n


def _is_limit(t, limit_path):
    t = M.peel(t, casts=True)
    return t.kind == "named" and t.a == limit_path


def _is_len_of(t, src):
    t = M.peel(t, casts=True)
    if t.kind == "call" and re.search(r"(Vec::len|<impl \[T\]>::len)$", t.a) and t.sub:
        return M.render(M.peel(t.sub[0])) == M.render(src)
    return False


def check_typed_vec(ctx, rule, prog, label, recv_ty_re, limit_path, limit_doc):
    """Every call receiving `&mut Vec<Arc<Memory>>` (the stack of parent memories):
    growth only under Lt(len(same vector), MAX_COMPUTE_DEPTH)."""
    limit_val = prog.const_value(limit_path)
    ctx.ob(rule, "%s:limit-constant" % label, limit_val == limit_doc, limit_path,
           "%s evaluates to %s, documented bound %d" % (limit_path, limit_val, limit_doc))
    rx = re.compile(recv_ty_re)
    n = 0
    guarded = []   # (fn, bb) of limit-guarded pushes
    forks = []     # functions building a child Vm from a clone of the stack
    for fn in prog.fns.values():
        if fn.crate not in ("essential_vm", "essential_check"):
            continue
        pv = None
        for bb, t in fn.calls():
            if fn.blocks[bb]["cleanup"]:
                continue
            tys = t.get("arg_tys", [])
            for ai, a in enumerate(t["args"]):
                if ai < len(tys) and rx.match(M.norm_ty(tys[ai])):
                    pv = pv or prog.prov(fn)
                    recv = M.render(M.peel(pv.of_operand(a)))
                    what = M.callee_of(t)
                    key = "%s:%s:%s" % (label, fn.path, what)
                    n += 1
                    ctx.saw(fn)
                    atoms = C.conditions(prog, fn, bb)
                    if NON_GROW.match(what):
                        ctx.ob(rule, key, True, fn.loc(bb), "non-growing mutator", fn)
                    elif GROW_ONE.match(what):
                        ok = False
                        for x in atoms:
                            if x.kind == "cmp" and x.terms[0] == "Lt" and _is_limit(x.terms[2], limit_path):
                                l = M.peel(x.terms[1], casts=True)
                                if l.kind == "call" and re.search(r"Vec::len$", l.a) and l.sub and M.render(M.peel(l.sub[0])) == recv:
                                    ok = True
                        if ok:
                            guarded.append((fn, bb))
                        ctx.ob(rule, key, ok, fn.loc(bb),
                               "%s on the parent-memory stack `%s`; needs Lt(len(it), %s); dominating: %s" % (what, recv, limit_path, [x.text for x in atoms]), fn)
                    else:
                        ctx.ob(rule, key, False, fn.loc(bb), "mutator `%s` receives &mut to the parent-memory stack" % what, fn)
    # every Vm aggregate: parent_memory is empty/default, or a clone of such a vector
    for fn in prog.fns.values():
        if fn.crate not in ("essential_vm", "essential_check"):
            continue
        for bb, b in enumerate(fn.blocks):
            for st in b["stmts"]:
                if st["k"] != "assign" or st["rv"]["k"] != "aggr" or st["rv"].get("agg") != "adt":
                    continue
                rv = st["rv"]
                if M.strip_generics(rv["adt"]) != "essential_vm::vm::Vm" or "parent_memory" not in rv.get("fields", []):
                    continue
                i = rv["fields"].index("parent_memory")
                src = M.peel(prog.prov(fn).of_operand(rv["ops"][i]), transparent=False)
                r = M.render(src)
                ok = False
                why = r
                if src.kind == "call" and re.search(r"(Vec::new|Default>::default|Default::default)$", src.a):
                    ok, why = True, "empty"
                elif src.kind == "field" and src.a == "parent_memory" and src.sub and M.peel(src.sub[0]).kind == "call" \
                        and re.search(r"Default>::default$", M.peel(src.sub[0]).a):
                    ok, why = True, "field of Vm::default()"
                elif src.kind == "call" and re.search(r"Clone>::clone$|Clone::clone$", src.a):
                    ok, why = True, "clone of a parent-memory stack (every such stack is bounded by the guarded push)"
                    inner = M.peel(src.sub[0]) if src.sub else None
                    base = M.peel(inner.sub[0]) if inner is not None and inner.sub else None
                    if not (inner is not None and inner.kind == "field" and inner.a == "parent_memory" and not (base is not None and base.kind == "param" and base.a == "<env>")):
                        # (a clone of a whole Vm copies its stack at the same depth and is not a nesting step)
                        forks.append((fn, bb))
                n += 1
                ctx.ob(rule, "%s:%s:Vm-aggregate" % (label, fn.path), ok, fn.loc(bb), "Vm.parent_memory built from %s" % why, fn)
    # the depth measure must grow on every nesting: a child Vm that receives a clone of the stack is
    # created only after the guarded push (otherwise the length no longer counts the nesting depth)
    for fn, bb in forks:
        site_fn, site_bb = fn, bb
        if fn.kind == "Closure" and fn.parent and prog.fn(fn.parent) is not None:
            par = prog.fn(fn.parent)
            for b2, blk in enumerate(par.blocks):
                for st in blk["stmts"]:
                    if st["k"] == "assign" and st["rv"].get("k") == "aggr" and st["rv"].get("agg") == "closure" and M.strip_generics(st["rv"].get("closure", "")) == fn.path:
                        site_fn, site_bb = par, b2
        ok = any(g is site_fn and site_fn.cfg().dominates(gb, site_bb) and gb != site_bb for g, gb in guarded)
        n += 1
        ctx.ob(rule, "%s:%s:child-created-only-after-the-guarded-push" % (label, fn.path), ok, site_fn.loc(site_bb),
               "the child Vm cloning the stack is built in %s bb%d; guarded pushes: %s" % (site_fn.path, site_bb, [(g.path, gb) for g, gb in guarded]), site_fn)
    return n
