"""Shared hashing rules for C04 / C17: sort-before-hash, delegation, layout agreement."""
import re

from . import cond as C
from . import linear as L
from . import mir as M


def calls(prog, f):
    pv = prog.prov(f)
    out = []
    for bb, t in f.calls():
        if f.blocks[bb]["cleanup"]:
            continue
        c = M.callee_of(t) if t.get("res") else M.callee_decl(t)
        if re.search(r"ops::(Try|FromResidual)", c):
            continue
        out.append((bb, c, [pv.of_operand(a) for a in t["args"]], t))
    return out


def sort_before_hash(ctx, rule, fname, salt):
    """In the *_slice helper: the hashed iterator walks the very slice that was sorted, the
    sort dominates the hash, the closure projects the 32-byte address, the salt comes last."""
    prog = ctx.prog
    f = prog.fn(fname)
    if not ctx.anchor(rule, "fn " + fname, f):
        return
    ctx.saw(f)
    cs = calls(prog, f)
    sorts = [(bb, a) for bb, c, a, _ in cs if re.search(r"slice::<impl \[T\]>::sort(_unstable)?$", c)]
    hashes = [(bb, a) for bb, c, a, _ in cs if c == "essential_hash::hash_bytes_iter"]
    short = fname.split("::")[-1]
    if not ctx.ob(rule, short + ":one-hash", len(hashes) == 1, f.loc(0), "%d hash_bytes_iter call(s)" % len(hashes), f):
        return
    hb, ha = hashes[0]
    it = M.render(ha[0])
    ok_sort = len(sorts) == 1 and M.peel(sorts[0][1][0]).kind == "param"
    ctx.ob(rule, short + ":sorts-a-parameter-slice", ok_sort, f.loc(sorts[0][0]) if sorts else f.loc(0), "sort calls: %s" % [M.render(a[0]) for _, a in sorts], f)
    if not ok_sort:
        return
    sb, sa = sorts[0]
    name = M.render(M.peel(sa[0]))
    ctx.ob(rule, short + ":sort-dominates-hash", f.cfg().dominates(sb, hb), f.loc(hb), "sort bb%d, hash bb%d" % (sb, hb), f)
    base = r"std::iter::Iterator::map\(slice::iter\(%s\), \{closure#0\}\)" % re.escape(name)
    if salt:
        want = r"^std::iter::Iterator::chain\(" + base + r", Option::Some\{std::array::<impl \[T; N\]>::as_slice\(salt\)\}\)$"
    else:
        want = "^" + base + "$"
    ctx.ob(rule, short + ":hashes-the-sorted-slice-in-order" + ("-then-salt" if salt else ""), bool(re.match(want, it)), f.loc(hb), "hashed iterator: %s" % it[:300], f)
    # nothing mutates / reorders the slice between sort and hash
    between = [c for bb, c, a, _ in cs if f.cfg().dominates(sb, bb) and bb != sb and f.cfg().dominates(bb, hb) and bb != hb and
               re.search(r"(reverse|swap|rotate|shuffle|sort|dedup|retain|truncate)", c)]
    ctx.ob(rule, short + ":no-reordering-after-sort", not between, f.loc(hb), "calls between sort and hash: %s" % between, f)
    for c in prog.closures_of(f):
        inner = [(cc, [M.render(M.peel(x)) for x in a]) for _, cc, a, _ in calls(prog, c)]
        ok = len(inner) == 1 and inner[0][1][0] in ("addr.0",) and re.search(r"as_slice$|Index<I> for \[T; N\]>::index$", inner[0][0]) is not None
        ty_ok = any("[u8; 32]" in l["ty"] for l in c.locals)
        ctx.ob(rule, short + ":element=the-32-byte-address", ok and ty_ok, c.loc(0), "closure: %s" % inner, c)
    rets = [M.render(prog.prov(f).of_rvalue(st["rv"])) for b in f.blocks for st in b["stmts"] if st["k"] == "assign" and st["rv"]["k"] == "aggr"
            and st["rv"].get("variant") == "ContentAddress"]
    ctx.ob(rule, short + ":returns-the-digest", len(rets) == 1 and rets[0].startswith("essential_types::ContentAddress::ContentAddress{essential_hash::hash_bytes_iter("), f.loc(0),
           "returns %s" % [r[:120] for r in rets], f)
    ordered = prog.fn("<essential_types::ContentAddress as std::cmp::Ord>::cmp")
    ctx.ob(rule, "ContentAddress:total-order-derived", ordered is not None and ordered.exp, "crates/types/src/lib.rs", "Ord for ContentAddress is #[derive]d (lexicographic on the 32 bytes)")


DELEG = {
    # function -> expected (callee, [argument renders]) sequence of workspace calls, in order
    "essential_hash::contract_addr::from_contract": [
        ("essential_hash::contract_addr::from_predicate_addrs", [r"^std::iter::Iterator::map\(slice::iter\(\*?contract\.predicates\), fn:essential_hash::content_addr\)$", r"^\*?contract\.salt$"])],
    "essential_hash::contract_addr::from_predicate_addrs": [
        ("essential_hash::contract_addr::from_predicate_addrs_slice", [r"^std::iter::Iterator::collect\(std::iter::IntoIterator::into_iter\(predicate_addrs\)\)$", r"^salt$"])],
    "essential_hash::solution_set_addr::from_set": [
        ("essential_hash::solution_set_addr::from_solution_addrs", [r"^std::iter::Iterator::map\(slice::iter\(\*?set\.solutions\), fn:essential_hash::content_addr\)$"])],
    "essential_hash::solution_set_addr::from_solution_addrs": [
        ("essential_hash::solution_set_addr::from_solution_addrs_slice", [r"^std::iter::Iterator::collect\(std::iter::IntoIterator::into_iter\(solution_addrs\)\)$"])],
    "essential_hash::content_addr": [("essential_hash::Address::content_address", [r"^t$"])],
    "essential_hash::address_impl::<impl essential_hash::Address for essential_types::contract::Contract>::content_address": [
        ("essential_hash::contract_addr::from_contract", [r"^self$"])],
    "essential_hash::address_impl::<impl essential_hash::Address for essential_types::solution::SolutionSet>::content_address": [
        ("essential_hash::solution_set_addr::from_set", [r"^self$"])],
    "essential_hash::address_impl::<impl essential_hash::Address for essential_types::solution::Solution>::content_address": [
        ("essential_hash::hash", [r"^self$"])],
    "essential_hash::address_impl::<impl essential_hash::Address for essential_types::predicate::Program>::content_address": [
        ("essential_hash::hash_bytes", [r"^\*?self\.0$"])],
    "essential_hash::address_impl::<impl essential_hash::Address for essential_types::predicate::Predicate>::content_address": [
        ("essential_types::predicate::Predicate::encode", [r"^self$"]),
        ("essential_hash::hash_bytes", [r"^std::iter::Iterator::collect\(\(essential_types::predicate::Predicate::encode\(self\) as Ok\)\.0\)$"])],
    "essential_hash::hash": [("essential_hash::serialize", [r"^t$"])],
    "essential_hash::serialize": [("postcard::ser::to_allocvec", [r"^t$"])],
    "essential_types::predicate::Predicate::encode": [("essential_types::predicate::encode::encode_predicate", [r"^self$"])],
}


def delegation(ctx, rule, only=None):
    prog = ctx.prog
    for fname, want in DELEG.items():
        if only and not re.search(only, fname):
            continue
        f = prog.fn(fname)
        short = re.sub(r"^essential_hash::address_impl::<impl essential_hash::Address for essential_types::(\w+::)?(\w+)>::content_address$", r"Address for \2", fname).replace("essential_hash::", "")
        if not ctx.anchor(rule, "fn " + short, f):
            continue
        ctx.saw(f)
        cs = [(bb, c, a) for bb, c, a, _ in calls(prog, f) if c.startswith(("essential_", "postcard::"))]
        got = [c for _, c, _ in cs]
        ctx.ob(rule, short + ":delegates-to", got == [w[0] for w in want], f.loc(cs[0][0]) if cs else f.loc(0), "workspace calls %s; expected %s" % (got, [w[0] for w in want]), f)
        for (bb, c, a), (wc, wargs) in zip(cs, want):
            if c != wc:
                continue
            r = [M.render(M.peel(x, transparent=False)) for x in a]
            ok = len(r) >= len(wargs) and all(re.match(w, x) for w, x in zip(wargs, r))
            ctx.ob(rule, short + ":arguments-of-" + wc.split("::")[-1], ok, f.loc(bb), "%s(%s)" % (wc.split("::")[-1], ", ".join(x[:120] for x in r)), f)
        if short == "Address for Predicate":
            # the zero address is the fallback for exactly the predicates that cannot be encoded
            rows = sorted((v, at) for _, v, at in M.return_table(prog, f))
            E_ = "essential_types::predicate::Predicate::encode(self)"
            want_rows = sorted([("essential_types::ContentAddress::ContentAddress{essential_hash::hash_bytes(std::iter::Iterator::collect((%s as Ok).0))}" % E_, ["is:Ok(%s)" % E_]),
                                ("essential_types::ContentAddress::ContentAddress{repeat{0}}", ["is:Err(%s)" % E_])])
            ctx.ob(rule, short + ":hash-of-the-encoding-iff-encodable", rows == want_rows, f.loc(0), "returns %s" % [(v[:70], [a[:60] for a in at]) for v, at in rows], f)
        # nothing edits the collection of addresses on its way to the hashing leaf
        muts = []
        for bb, c, a, t in calls(prog, f):
            tys = [M.norm_ty(x) for x in t.get("arg_tys", [])]
            if tys and tys[0].startswith("&mut ") and re.search(r"Vec<|\[", tys[0]) and not re.search(r"ops::DerefMut|IntoIterator|Iterator>::next|::collect$", c) \
                    and not c.startswith("essential_hash::"):
                muts.append(c)
        if "content_address" not in fname or True:
            ctx.ob(rule, short + ":no-edit-of-the-collected-values", not muts, f.loc(0), "calls that mutate a collection in this delegation step: %s" % muts, f)
        # results are wrapped, not altered
        aggs = [M.render(prog.prov(f).of_rvalue(st["rv"])) for b in f.blocks for st in b["stmts"] if st["k"] == "assign" and st["rv"]["k"] == "aggr"
                and st["rv"].get("variant") == "ContentAddress"]
        if aggs and "Predicate" not in short:
            ctx.ob(rule, short + ":wraps-the-digest", all(re.match(r"^essential_types::ContentAddress::ContentAddress\{essential_hash::hash(_bytes)?\(", x) for x in aggs), f.loc(0), "%s" % [x[:100] for x in aggs], f)


def sha_leaves(ctx, rule):
    """Every SHA-256 user in essential-hash: new / update(data) / finalize and nothing else."""
    prog = ctx.prog
    for fname, data_rx in [("essential_hash::hash", r"^essential_hash::serialize\(t\)$"), ("essential_hash::hash_bytes", r"^bytes$"),
                           ("essential_hash::hash_bytes_iter", r"^\(std::iter::Iterator::next\(std::iter::IntoIterator::into_iter\(iter\)\) as Some\)\.0$"),
                           ("essential_hash::hash_words", r"^std::iter::Iterator::collect\(std::iter::Iterator::flat_map\(std::iter::Iterator::copied\(slice::iter\(words\)\), fn:essential_types::convert::bytes_from_word\)\)$")]:
        f = prog.fn(fname)
        short = fname.split("::")[-1]
        if not ctx.anchor(rule, "fn " + short, f):
            continue
        ctx.saw(f)
        cs = calls(prog, f)
        dig = [(bb, c.split("::")[-1], a, t) for bb, c, a, t in cs if "digest::Digest" in c]
        seq = [d[1] for d in dig]
        ctx.ob(rule, short + ":new-update-finalize", seq == ["new", "update", "finalize"], f.loc(0), "digest calls %s" % seq, f)
        types = {g for _, _, _, t in dig for g in (t.get("gargs") or [])[:1]}
        ctx.ob(rule, short + ":sha256", all("sha2::" in x and "Sha256" in x or "CoreWrapper<sha2::core_api::Sha256VarCore" in x or "Sha256" in x for x in types) and types, f.loc(0), "digest type %s" % sorted(types), f)
        upd = [a for _, n, a, _ in dig if n == "update"]
        if upd:
            r = M.render(M.peel(upd[0][1], transparent=False))
            ctx.ob(rule, short + ":hashes-exactly-its-input", bool(re.match(data_rx, r)), f.loc(0), "update(%s)" % r[:200], f)


def layout(ctx, rule, expect_c=None):
    """Encoder / size helper / decoder of the predicate encoding agree on the layout."""
    prog = ctx.prog
    NODE = prog.const_value("essential_types::predicate::encode::NODE_SIZE_BYTES")
    EDGE = prog.const_value("essential_types::predicate::encode::EDGE_SIZE_BYTES")
    LEN = prog.const_value("essential_types::predicate::encode::LEN_SIZE_BYTES")
    ctx.ob(rule, "constants", (NODE, EDGE, LEN) == (34, 2, 2), "crates/types/src/predicate/encode.rs", "NODE_SIZE_BYTES=%s EDGE_SIZE_BYTES=%s LEN_SIZE_BYTES=%s" % (NODE, EDGE, LEN))
    enc = prog.fn("essential_types::predicate::encode::encode_predicate")
    a_enc = b_enc = c_enc = None
    if ctx.anchor(rule, "fn encode_predicate", enc):
        ctx.saw(enc)
        pv = prog.prov(enc)
        oks = [pv.of_operand(st["rv"]["ops"][0]) for b in enc.blocks for st in b["stmts"] if st["k"] == "assign" and st["rv"]["k"] == "aggr" and st["rv"].get("variant") == "Ok"]
        if ctx.ob(rule, "encoder:one-result", len(oks) == 1, enc.loc(0), "%d Ok(..) results" % len(oks), enc):
            parts = flatten_chain(oks[0])
            shape = []
            c_enc = 0
            for p in parts:
                p = M.peel(p, transparent=True)
                r = M.render(p)
                m = re.match(r"^u(\d+)::to_be_bytes\(\(Vec::len\(\*?predicate\.(nodes|edges)\) as u\d+\)\)$", r)
                if m:
                    c_enc += int(m.group(1)) // 8
                    shape.append("len(%s)" % m.group(2))
                    continue
                m = re.match(r"^std::iter::Iterator::flat_map\(slice::iter\(\*?predicate\.(nodes|edges)\), \{closure#(\d)\}\)$", r)
                if m:
                    shape.append(m.group(1))
                    clo = prog.fn(enc.path + "::{closure#%s}" % m.group(2))
                    w = closure_width(prog, clo) if clo else None
                    if m.group(1) == "nodes":
                        a_enc = w
                    else:
                        b_enc = w
                    continue
                shape.append("?" + r[:60])
            ctx.ob(rule, "encoder:emission-order", shape == ["len(nodes)", "nodes", "len(edges)", "edges"], enc.loc(0),
                   "emits %s; every variable-length part must be preceded by its length" % shape, enc)
            ctx.ob(rule, "encoder:widths", (a_enc, b_enc, c_enc) == (NODE, EDGE, 2 * (LEN or 0)), enc.loc(0),
                   "per node %s bytes (NODE_SIZE_BYTES %s), per edge %s (EDGE_SIZE_BYTES %s), fixed %s (2*LEN_SIZE_BYTES %s)" % (a_enc, NODE, b_enc, EDGE, c_enc, 2 * (LEN or 0)), enc)
    sz = prog.fn("essential_types::predicate::encode::predicate_encoded_size")
    if ctx.anchor(rule, "fn predicate_encoded_size", sz):
        ctx.saw(sz)
        pv = prog.prov(sz)
        rets = [pv.of_rvalue(st["rv"]) for b in sz.blocks for st in b["stmts"] if st["k"] == "assign" and M.Place(st["pl"]).is_local() and M.Place(st["pl"]).local == 0]
        form = L.lin(prog, rets[-1]) if rets else None
        want = {"Vec::len(predicate.nodes)": a_enc if a_enc is not None else NODE, "Vec::len(predicate.edges)": b_enc if b_enc is not None else EDGE, 1: c_enc if c_enc is not None else 4}
        norm = {(k.replace("*", "") if isinstance(k, str) else k): v for k, v in (form or {}).items()}
        wantn = {(k.replace("*", "") if isinstance(k, str) else k): v for k, v in want.items()}
        ctx.ob(rule, "size-helper=encoder-length", norm == wantn, "%s:%d" % (sz.file, sz.line),
               "predicate_encoded_size = %s; the encoder emits %s" % (L.show(form), L.show(want)), sz)
    # the public methods forward to the codec functions with their argument unchanged
    for meth, callee, arg in [("encode", "encode_predicate", "self"), ("decode", "decode_predicate", "bytes"), ("encoded_size", "predicate_encoded_size", "self")]:
        w = prog.fn("essential_types::predicate::Predicate::" + meth)
        if ctx.anchor(rule, "fn Predicate::" + meth, w):
            ctx.saw(w)
            rows = [(v, at) for _, v, at in M.return_table(prog, w)]
            ctx.ob(rule, "Predicate::%s:forwards-unchanged" % meth, rows == [("essential_types::predicate::encode::%s(%s)" % (callee, arg), [])], "%s:%d" % (w.file, w.line), "returns %s" % [(v[:90], at) for v, at in rows], w)
    dec = prog.fn("essential_types::predicate::encode::decode_predicate")
    if ctx.anchor(rule, "fn decode_predicate", dec):
        ctx.saw(dec)
        pv = prog.prov(dec)
        gets = []
        for bb, t in dec.calls():
            if M.callee_of(t) == "std::slice::<impl [T]>::get":
                rg = M.peel(pv.of_operand(t["args"][1]))
                if rg.kind == "aggr":
                    gets.append((bb, rg))

        def sym(x):
            r = M.render(x)
            if "RangeTo{" in r and "Range{" not in r.split("RangeTo{")[0]:
                return "n"
            return "m" if r.count("slice::get(") >= 2 or "AddWithOverflow" in r else "n"
        forms = []
        for bb, rg in gets:
            ends = [L.lin(prog, s, sym) for s in rg.sub]
            forms.append((rg.a.split("::")[-1], [L.show(e) for e in ends]))
        want = [("RangeTo", ["2"]), ("Range", ["2", "34*n + 2"]), ("Range", ["34*n + 2", "34*n + 4"]), ("Range", ["34*n + 4", "2*m + 34*n + 4"])]
        ctx.ob(rule, "decoder:offsets", forms == want, dec.loc(gets[0][0]) if gets else dec.loc(0), "decoder reads %s; layout requires %s" % (forms, want), dec)
        # the decoder returns only after all four parts were read: one Ok under four successful reads, BytesTooShort under each failed read
        rows = M.return_table(prog, dec)
        oks = [(v, at) for _, v, at in rows if v.startswith("Result::Ok{")]
        errs = [(v, at) for _, v, at in rows if not v.startswith("Result::Ok{")]
        ok_shape = len(oks) == 1 and len(oks[0][1]) == 4 and all(a.startswith("is:Some(") and "slice::get(bytes, " in a for a in oks[0][1]) \
            and re.match(r"^Result::Ok\{essential_types::predicate::Predicate::Predicate\{std::iter::Iterator::collect\(.*\), std::iter::Iterator::collect\(.*\)\}\}$", oks[0][0]) is not None
        err_shape = len(errs) == 4 and all(v.endswith("PredicateDecodeError::BytesTooShort{}}") and at and at[-1].startswith("is:None(") and "slice::get(bytes, " in at[-1] for v, at in errs)
        # the element counts used while collecting: node count for the nodes, edge count for the edges
        takes = []
        if len(oks) == 1:
            okt = None
            for b in dec.blocks:
                for st in b["stmts"]:
                    if st["k"] == "assign" and st["rv"].get("k") == "aggr" and st["rv"].get("agg") == "adt" and str(st["rv"].get("adt", "")).endswith("predicate::Predicate"):
                        okt = [pv.of_operand(o) for o in st["rv"]["ops"]]
            for t_ in (okt or []):
                tk = [x for x in t_.walk() if x.kind == "call" and x.a.endswith("Iterator::take")]
                takes.append([L.show(L.lin(prog, x.sub[1], sym)) for x in tk])
        ctx.ob(rule, "decoder:collects-n-nodes-and-m-edges", len(takes) == 2 and takes[0] in ([], ["n"]) and takes[1] in ([], ["m"]), dec.loc(0), "take() bounds of the node / edge collectors: %s (n = node count, m = edge count)" % takes, dec)
        ctx.ob(rule, "decoder:returns-only-after-reading-all-four-parts", ok_shape and err_shape, dec.loc(0),
               "%d Ok return(s) under %s successful reads; %d error return(s)" % (len(oks), [len(at) for _, at in oks], len(errs)), dec)


def flatten_chain(t):
    t = M.peel(t, transparent=False)
    if t.kind == "call" and t.a.endswith("Iterator::chain") and len(t.sub) == 2:
        return flatten_chain(t.sub[0]) + flatten_chain(t.sub[1])
    return [t]


def closure_width(prog, clo):
    """Bytes emitted per element by an encoder closure: sum over chained parts."""
    pv = prog.prov(clo)
    ret = pv.of_local(0)
    total = 0
    for p in flatten_chain(ret):
        p = M.peel(p, transparent=True)
        r = M.render(p)
        m = re.match(r"^u(\d+)::to_be_bytes\(", r)
        if m:
            total += int(m.group(1)) // 8
            continue
        m2 = re.match(r"^std::iter::Iterator::copied\(slice::iter\((.*)\)\)$", r)
        if m2:
            # width from the field type [u8; N]
            inner = p.sub[0].sub[0] if p.sub and p.sub[0].sub else None
            x = M.peel(inner) if inner is not None else None
            ty = x.meta.get("ty") if x is not None and x.kind == "field" and x.meta else None
            mm = re.match(r"^\[u8; (\d+)\]$", ty or "")
            if mm:
                total += int(mm.group(1))
                continue
        return None
    return total


STRUCTURAL = re.compile(r" as std::(cmp::(PartialEq|Eq|Ord|PartialOrd)|hash::Hash)(<.*>)?>::(eq|ne|cmp|partial_cmp|hash|lt|le|gt|ge|max|min|clamp)$")


def hash_bytes_exact(ctx, rule):
    """hash_bytes is SHA-256 of its argument for every input (no special case, e.g. for the empty slice)."""
    prog = ctx.prog
    f = prog.fn("essential_hash::hash_bytes")
    if not ctx.anchor(rule, "fn hash_bytes", f):
        return
    ctx.saw(f)
    rows = [(v, at) for _, v, at in M.return_table(prog, f)]
    upd = [(c, [M.render(x) for x in a]) for _, c, a, _ in calls(prog, f) if c.endswith("Digest>::update")]
    ok = rows == [("<T as std::convert::Into<U>>::into(<D as digest::digest::Digest>::finalize(<D as digest::digest::Digest>::new()))", [])] and len(upd) == 1 and upd[0][1][-1:] == ["bytes"]
    ctx.ob(rule, "hash_bytes:sha256-of-the-argument-for-every-input", ok, "%s:%d" % (f.file, f.line), "returns %s; update(%s)" % ([(v[:60], at) for v, at in rows], [u[1][-1:] for u in upd]), f)


def structural_traits(ctx, rule):
    """Sorting before hashing, duplicate detection in sets and map lookups all go through PartialEq/Eq/Ord/Hash of the
    workspace's value types.  They are canonical only if those impls are the structural (derived) ones: a hand-written
    comparison that ignores a field or a suffix makes distinct values equal, or the order depend on something else."""
    prog = ctx.prog
    derived, hand = 0, []
    for f in prog.fns.values():
        if f.crate in ("essential_types", "essential_hash", "essential_check", "essential_sign") and STRUCTURAL.search(f.path):
            if f.exp:
                derived += 1
            else:
                hand.append(f)
    ctx.ob(rule, "equality-order-hash-of-value-types-are-derived", not hand, "%s:%d" % (hand[0].file, hand[0].line) if hand else "crates/types/src",
           "%d derive-generated PartialEq/Eq/Ord/PartialOrd/Hash methods; hand-written: %s" % (derived, [f.path for f in hand]))
    ctx.floor(rule, "derived comparison/hash methods of the value types", derived, 40)
