"""Linear forms over provenance terms: a term built from +, * by constants, casts and
checked-arithmetic projections is evaluated to {symbol: coefficient, 1: constant}."""
import re

from . import mir as M


def lin(prog, t, sym=None):
    """Return dict symbol->coef (symbol 1 = constant) or None if not linear."""
    sym = sym or (lambda x: M.render(x))
    t0 = t
    t = M.peel(t, casts=True)
    k = t.kind
    if k == "const" and isinstance(t.a, int):
        return {1: t.a}
    if k == "named":
        v = prog.const_value(t.a)
        if v is not None:
            return {1: v}
        return {sym(t): 1}
    if k == "field" and t.a == "0" and t.sub and t.sub[0].kind == "binop" and t.sub[0].a.endswith("WithOverflow"):
        t = t.sub[0]
        k = "binop"
    if k == "binop":
        op = t.a.replace("WithOverflow", "").replace("Unchecked", "")
        a = lin(prog, t.sub[0], sym)
        b = lin(prog, t.sub[1], sym)
        if a is None or b is None:
            return {sym(t): 1}
        if op == "Add":
            return _add(a, b, 1)
        if op == "Sub":
            return _add(a, b, -1)
        if op == "Mul":
            if set(a) <= {1}:
                return {s: c * a.get(1, 0) for s, c in b.items()}
            if set(b) <= {1}:
                return {s: c * b.get(1, 0) for s, c in a.items()}
        return {sym(t): 1}
    if k == "call" and re.search(r"::(saturating_add|checked_add|wrapping_add)$", t.a) and len(t.sub) == 2:
        return _add(lin(prog, t.sub[0], sym), lin(prog, t.sub[1], sym), 1)
    if k == "call" and re.search(r"::(saturating_sub|checked_sub|wrapping_sub)$", t.a) and len(t.sub) == 2:
        return _add(lin(prog, t.sub[0], sym), lin(prog, t.sub[1], sym), -1)
    if k == "call" and re.search(r"::(saturating_mul|checked_mul|wrapping_mul)$", t.a) and len(t.sub) == 2:
        a, b = lin(prog, t.sub[0], sym), lin(prog, t.sub[1], sym)
        if a is not None and set(a) <= {1}:
            return {s_: c * a.get(1, 0) for s_, c in (b or {}).items()}
        if b is not None and set(b) <= {1}:
            return {s_: c * b.get(1, 0) for s_, c in (a or {}).items()}
    if k == "call" and re.search(r"(TryFrom<\w+> for \w+>::try_from|convert::TryInto<.*>>::try_into|convert::TryFrom<.*>>::try_from)$", t.a) and t.sub:
        return lin(prog, t.sub[0], sym)
    if k == "call" and re.search(r"Option::and_then$", t.a) and len(t.sub) == 2 and t.sub[1].kind == "aggr" and t.sub[1].a.startswith("closure:"):
        # apply a closure of the form |i| <linear in i>
        clo = prog.fn(t.sub[1].a[len("closure:"):])
        if clo is not None:
            inner = lin(prog, prog.prov(clo).of_local(0), lambda x: "$arg" if (x.kind == "param" and x.a != "<env>") else M.render(x))
            outer = lin(prog, t.sub[0], sym)
            if inner is not None and outer is not None and set(inner) <= {1, "$arg"}:
                c = inner.get("$arg", 0)
                res = {s_: v * c for s_, v in outer.items()}
                res[1] = res.get(1, 0) + inner.get(1, 0)
                return {s_: v for s_, v in res.items() if v != 0 or s_ == 1}
    if k == "call" and re.search(r"Option::(ok_or|ok_or_else)$|Result::(map_err|ok)$", t.a) and t.sub:
        return lin(prog, t.sub[0], sym)
    if k == "try":
        return lin(prog, t.sub[0], sym)
    if k == "call" and re.search(r"convert::(Into|From)<.*>>::(into|from)$|::from$|::into$", t.a) and t.sub:
        return lin(prog, t.sub[0], sym)
    return {sym(t): 1}


def _add(a, b, sign):
    out = dict(a)
    for s, c in b.items():
        out[s] = out.get(s, 0) + sign * c
    return {s: c for s, c in out.items() if c != 0 or s == 1}


def show(l):
    if l is None:
        return "?"
    parts = []
    for s, c in sorted(l.items(), key=lambda x: (x[0] == 1, str(x[0]))):
        if s == 1:
            parts.append(str(c))
        else:
            parts.append("%d*%s" % (c, s) if c != 1 else str(s))
    return " + ".join(parts) if parts else "0"
