"""Small helpers to state expectations on a function's calls and aggregates."""
import re

from . import mir as M

SKIP = re.compile(r"ops::(Try|FromResidual|Deref|DerefMut)\b|ops::(Try|FromResidual)>")


def calls(prog, f, keep=None):
    pv = prog.prov(f)
    out = []
    for bb, t in f.calls():
        if f.blocks[bb]["cleanup"]:
            continue
        c = M.callee_of(t) if t.get("res") else M.callee_decl(t)
        if SKIP.search(c):
            continue
        if keep and not re.search(keep, c):
            continue
        out.append((bb, c, [M.render(pv.of_operand(a)) for a in t["args"]]))
    return out


def has_call(ctx, rule, key, prog, f, callee_rx, arg_rxs, count=1):
    """Exactly `count` calls whose callee matches and whose arguments match the regex list."""
    hits = []
    for bb, c, args in calls(prog, f):
        if re.search(callee_rx, c) and len(args) >= len(arg_rxs) and all(re.search(rx, a) for rx, a in zip(arg_rxs, args)):
            hits.append((bb, c, args))
    near = [(c, [a[:100] for a in args]) for _, c, args in calls(prog, f) if re.search(callee_rx, c)]
    ctx.saw(f)
    return ctx.ob(rule, key, len(hits) == count, f.loc(hits[0][0]) if hits else "%s:%d" % (f.file, f.line),
                  "%d call(s) matching %s(%s); calls of that callee: %s" % (len(hits), callee_rx, ", ".join(arg_rxs), near[:4]), f)


def aggregates(prog, f, variant=None):
    pv = prog.prov(f)
    out = []
    for bb, b in enumerate(f.blocks):
        if b["cleanup"]:
            continue
        for st in b["stmts"]:
            if st["k"] == "assign" and st["rv"]["k"] == "aggr" and (variant is None or st["rv"].get("variant") == variant):
                out.append((bb, M.render(pv.of_rvalue(st["rv"]))))
    return out
