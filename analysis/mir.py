"""Program model over the driver's facts: functions, CFG, dominators,
provenance terms, path conditions, call graph."""
import re
from collections import defaultdict

import json
import os

from . import facts as F


def strip_generics(path):
    """`a::B::<T>::f` -> `a::B::f`; type-position generics (`Vec<T>`) and
    `<T as Trait>` qualifiers are kept."""
    out = []
    i = 0
    n = len(path)
    while i < n:
        if path.startswith("::<", i) and not path.startswith("::<impl ", i):
            depth = 0
            j = i + 2
            while j < n:
                if path[j] == "<":
                    depth += 1
                elif path[j] == ">" and path[j - 1] != "-":
                    depth -= 1
                    if depth == 0:
                        break
                j += 1
            i = j + 1
            continue
        out.append(path[i])
        i += 1
    return "".join(out)


_LIFETIME = re.compile(r"'[a-z_][a-z0-9_]*\s?")


def norm_ty(t):
    return _LIFETIME.sub("", t)


class Place:
    __slots__ = ("local", "proj")

    def __init__(self, j):
        self.local = j["l"]
        self.proj = j["p"]

    def is_local(self):
        return not self.proj

    def __repr__(self):
        s = "_%d" % self.local
        for p in self.proj:
            k = p["k"]
            if k == "deref":
                s = "(*%s)" % s
            elif k == "field":
                s = "%s.%s" % (s, p["name"])
            elif k == "index":
                s = "%s[_%d]" % (s, p["l"])
            elif k == "cindex":
                s = "%s[%s%d of %d]" % (s, "-" if p["from_end"] else "", p["off"], p["min"])
            elif k == "subslice":
                s = "%s[%d..%s%d]" % (s, p["from"], "-" if p["from_end"] else "", p["to"])
            elif k == "downcast":
                s = "(%s as %s)" % (s, p["variant"])
            else:
                s = "%s.?" % s
        return s


def op_place(op):
    if op and op.get("k") in ("copy", "move"):
        return Place(op["pl"])
    return None


def const_int(op):
    if op and op.get("k") == "const" and "int" in op:
        return int(op["int"])
    return None


def show_op(op):
    if op is None:
        return "?"
    k = op.get("k")
    if k in ("copy", "move"):
        return ("move " if k == "move" else "") + repr(Place(op["pl"]))
    if k == "const":
        if "named" in op:
            return "const %s" % strip_generics(op["named"])
        if "fn" in op:
            return "fn %s" % strip_generics(op["fn"])
        if "int" in op:
            return "const %s_%s" % (op["int"], op["ty"])
        if "str" in op:
            return "const %r" % op["str"]
        return "const <%s>" % op["ty"]
    return "<%s>" % k


def show_rv(rv):
    k = rv["k"]
    if k == "use":
        return show_op(rv["a"])
    if k == "ref":
        return "&%s%r" % ("mut " if rv["mut"] else "", Place(rv["pl"]))
    if k == "rawptr":
        return "&raw %r" % Place(rv["pl"])
    if k == "cast":
        return "%s as %s (%s)" % (show_op(rv["a"]), rv["ty"], rv["kind"])
    if k == "binop":
        return "%s(%s, %s)" % (rv["op"], show_op(rv["a"]), show_op(rv["b"]))
    if k == "unop":
        return "%s(%s)" % (rv["op"], show_op(rv["a"]))
    if k == "discr":
        return "discriminant(%r)" % Place(rv["pl"])
    if k == "aggr":
        a = rv["agg"]
        if a == "adt":
            head = "%s::%s" % (rv["adt"], rv["variant"])
        elif a == "closure":
            head = "closure %s" % rv["closure"]
        else:
            head = a
        return "%s{%s}" % (head, ", ".join(show_op(o) for o in rv["ops"]))
    if k == "repeat":
        return "[%s; %s]" % (show_op(rv["a"]), rv["n"])
    return "<%s %s>" % (k, rv.get("dbg", ""))


class Fn:
    def __init__(self, crate, j):
        self.crate = crate
        self.j = j
        self.raw_path = j["path"]
        self.path = strip_generics(j["path"])
        self.kind = j["kind"]
        self.file = j["span"]["file"]
        self.line = j["span"]["line"]
        self.eline = j["span"]["eline"]
        self.exp = j["exp"]
        self.vis = j.get("vis")
        self.parent = strip_generics(j["parent"]) if "parent" in j else None
        m = j["mir"]
        self.arg_count = m["arg_count"]
        self.locals = m["locals"]
        self.blocks = m["blocks"]
        self.dbg = m["dbg"]
        self.names = {}
        for d in self.dbg:
            pl = Place(d["pl"])
            if pl.is_local():
                self.names.setdefault(pl.local, d["name"])
        self.arg_names = j.get("arg_names", [])
        self._cfg = None
        self.promoted = []
        for i, pm in enumerate(j.get("promoted", [])):
            pj = dict(j)
            pj["mir"] = pm
            pj["promoted"] = []
            pj["path"] = j["path"] + "::{promoted#%d}" % i
            pj["kind"] = "Promoted"
            self.promoted.append(Fn(crate, pj))

    # -- basic CFG ---------------------------------------------------------
    def term(self, bb):
        return self.blocks[bb]["term"]

    def succs(self, bb, unwind=False):
        t = self.blocks[bb]["term"]
        k = t["k"]
        out = []
        if k == "goto":
            out = [t["target"]]
        elif k == "switch":
            out = [a[1] for a in t["arms"]] + [t["otherwise"]]
        elif k in ("call", "assert", "drop"):
            if t.get("target") is not None:
                out = [t["target"]]
            if unwind and isinstance(t.get("unwind"), int):
                out.append(t["unwind"])
        return out

    def cfg(self):
        if self._cfg is None:
            self._cfg = CFG(self)
        return self._cfg

    def calls(self):
        for bb, b in enumerate(self.blocks):
            t = b["term"]
            if t["k"] in ("call", "tailcall"):
                yield bb, t

    def local_ty(self, l):
        return self.locals[l]["ty"]

    def loc(self, bb, si=None):
        if si is None or si >= len(self.blocks[bb]["stmts"]):
            return "%s:%d" % (self.file, self.blocks[bb]["term"]["line"])
        return "%s:%d" % (self.file, self.blocks[bb]["stmts"][si].get("line", self.line))

    def __repr__(self):
        return "Fn(%s)" % self.path


def callee_of(t):
    """Normalised resolved callee of a call terminator."""
    p = t.get("res") or t.get("callee") or "<unknown>"
    return strip_generics(p)


def callee_decl(t):
    return strip_generics(t.get("callee", "<unknown>"))


class CFG:
    """Edge-split CFG (normal edges only): nodes are block ids `b` and, for each
    switch edge, a virtual node ('e', src, idx).  Dominators over that graph give
    for every block the set of switch edges that every path from entry crosses."""

    def __init__(self, fn):
        self.fn = fn
        n = len(fn.blocks)
        self.succ = defaultdict(list)
        self.pred = defaultdict(list)
        self.edge_info = {}
        for b in range(n):
            t = fn.blocks[b]["term"]
            if t["k"] == "switch":
                arms = t["arms"]
                for i, (v, tgt) in enumerate(arms):
                    e = ("e", b, i)
                    self.edge_info[e] = (b, v, tgt)
                    self._add(b, e)
                    self._add(e, tgt)
                e = ("e", b, len(arms))
                self.edge_info[e] = (b, None, t["otherwise"])
                self._add(b, e)
                self._add(e, t["otherwise"])
            else:
                for s in fn.succs(b):
                    self._add(b, s)
        self.idom = self._dominators(0)
        self._reach = {}

    def _add(self, a, b):
        self.succ[a].append(b)
        self.pred[b].append(a)

    def _dominators(self, entry):
        order = []
        seen = set()
        stack = [(entry, iter(self.succ[entry]))]
        seen.add(entry)
        while stack:
            node, it = stack[-1]
            adv = False
            for s in it:
                if s not in seen:
                    seen.add(s)
                    stack.append((s, iter(self.succ[s])))
                    adv = True
                    break
            if not adv:
                order.append(node)
                stack.pop()
        rpo = list(reversed(order))
        idx = {n: i for i, n in enumerate(rpo)}
        idom = {entry: entry}
        changed = True
        while changed:
            changed = False
            for n in rpo[1:]:
                preds = [p for p in self.pred[n] if p in idom]
                if not preds:
                    continue
                new = preds[0]
                for p in preds[1:]:
                    a, b = p, new
                    while a != b:
                        while idx[a] > idx[b]:
                            a = idom[a]
                        while idx[b] > idx[a]:
                            b = idom[b]
                    new = a
                if idom.get(n) != new:
                    idom[n] = new
                    changed = True
        self.rpo = rpo
        return idom

    def reachable(self, b):
        return b in self.idom

    def dominators(self, b):
        """All nodes dominating b (including b), from b up to entry."""
        out = []
        if b not in self.idom:
            return out
        cur = b
        while True:
            out.append(cur)
            nxt = self.idom[cur]
            if nxt == cur:
                break
            cur = nxt
        return out

    def dominates(self, a, b):
        return a in self.dominators(b)

    def dominating_edges(self, b):
        """[(switch_block, value_or_None, arm_index)] crossed on every path to b."""
        out = []
        for n in self.dominators(b):
            if isinstance(n, tuple):
                src, v, _tgt = self.edge_info[n]
                out.append((src, v, n[2]))
        return out

    def reach_from(self, a):
        if a not in self._reach:
            seen = set()
            st = [a]
            while st:
                x = st.pop()
                for s in self.succ[x]:
                    if s not in seen:
                        seen.add(s)
                        st.append(s)
            self._reach[a] = seen
        return self._reach[a]

    def reaches(self, a, b):
        return b in self.reach_from(a)

    def blocks_only_via(self, node):
        """Blocks dominated by `node` (a block or an edge node)."""
        return [b for b in range(len(self.fn.blocks)) if b in self.idom and node in self.dominators(b)]


# --------------------------------------------------------------------------
# Provenance terms
# --------------------------------------------------------------------------

class T:
    """Provenance term.  kind in: param, const, named, fn, call, field, deref,
    ref, cast, binop, unop, aggr, variant, discr, index, phi, unknown, len."""
    __slots__ = ("kind", "a", "sub", "meta")

    def __init__(self, kind, a=None, sub=(), meta=None):
        self.kind = kind
        self.a = a
        self.sub = tuple(sub)
        self.meta = meta

    def __repr__(self):
        return render(self)

    def walk(self):
        yield self
        for s in self.sub:
            yield from s.walk()

    def find(self, pred):
        return [t for t in self.walk() if pred(t)]

    def has_call(self, rx):
        r = re.compile(rx) if isinstance(rx, str) else rx
        return any(t.kind == "call" and r.search(t.a) for t in self.walk())


def render(t, depth=0):
    k = t.kind
    if depth > 60:
        return "…"
    r = lambda x: render(x, depth + 1)
    if k == "param":
        return "%s" % t.a
    if k == "const":
        return str(t.a)
    if k == "named":
        return t.a
    if k == "fn":
        return "fn:" + t.a
    if k == "str":
        return repr(t.a)
    if k == "call":
        if t.sub and DEREF_CALLS.match(t.a):
            return r(t.sub[0])
        return "%s(%s)" % (short_path(t.a), ", ".join(r(s) for s in t.sub))
    if k == "try":
        return "%s?" % r(t.sub[0])
    if k == "field":
        return "%s.%s" % (r(t.sub[0]), t.a)
    if k == "deref":
        return r(t.sub[0])
    if k == "ref":
        return r(t.sub[0])
    if k == "cast":
        return "(%s as %s)" % (r(t.sub[0]), t.a)
    if k == "binop":
        return "%s(%s, %s)" % (t.a, r(t.sub[0]), r(t.sub[1]))
    if k == "unop":
        return "%s(%s)" % (t.a, r(t.sub[0]))
    if k == "aggr":
        if t.a.startswith("closure:"):
            return "{%s}" % t.a.split("::")[-1].strip("{}")
        return "%s{%s}" % (short_path(t.a), ", ".join(r(s) for s in t.sub))
    if k == "variant":
        return "(%s as %s)" % (r(t.sub[0]), t.a)
    if k == "discr":
        return "discr(%s)" % r(t.sub[0])
    if k == "index":
        return "%s[%s]" % (r(t.sub[0]), r(t.sub[1]) if len(t.sub) > 1 else t.a)
    if k == "phi":
        if t.a:
            return "var:%s" % t.a
        return "phi(%s)" % " | ".join(sorted(set(r(s) for s in t.sub)))
    if k == "local":
        return "var:%s" % t.a
    return "?%s" % (t.a or "")


DEREF_CALLS = re.compile(
    r"^(<.* as (core|std)::(ops::Deref|ops::DerefMut|convert::AsRef<.*>|borrow::Borrow<.*>|convert::AsMut<.*>|borrow::BorrowMut<.*>)>::"
    r"(deref|deref_mut|as_ref|borrow|as_mut|borrow_mut)"
    r"|(core|std)::(ops::Deref|ops::DerefMut|convert::AsRef|borrow::Borrow)::(deref|deref_mut|as_ref|borrow))$")

_SHORT = [
    (re.compile(r"^(std|core|alloc)::convert::num::(ptr_try_from_impls::)?<impl (std|core)::convert::TryFrom<\w+> for \w+>::try_from$"), "int::try_from"),
    (re.compile(r"^<(\w+) as (std|core)::convert::TryFrom<(\w+)>>::try_from$"), "int::try_from"),
    (re.compile(r"^(std|core)::convert::num::<impl (std|core)::convert::From<\w+> for \w+>::from$"), "int::from"),
    (re.compile(r"^(std|core)::num::<impl (\w+)>::"), r"\2::"),
    (re.compile(r"^(std|core)::slice::<impl \[T\]>::"), "slice::"),
    (re.compile(r"^(std|alloc)::vec::Vec::"), "Vec::"),
    (re.compile(r"^(std|core)::option::Option::"), "Option::"),
    (re.compile(r"^(std|core)::result::Result::"), "Result::"),
]


def short_path(p):
    for rx, rep in _SHORT:
        if rx.search(p):
            return rx.sub(rep, p)
    return p


# wrappers through which a value passes unchanged for the purpose of "where does it come from"
TRANSPARENT_CALLS = re.compile(
    r"(^<.* as (core|std)::(ops::Deref|ops::DerefMut|convert::Into<.*>|convert::From<.*>|convert::AsRef<.*>|"
    r"borrow::Borrow<.*>|clone::Clone|iter::IntoIterator|convert::AsMut<.*>|borrow::ToOwned)>::"
    r"(deref|deref_mut|into|from|as_ref|borrow|clone|into_iter|as_mut|to_owned)$)"
    r"|(^(core|std)::(ops::Deref|ops::DerefMut|convert::Into|convert::From|convert::AsRef|clone::Clone|iter::IntoIterator|borrow::Borrow|borrow::ToOwned)::"
    r"(deref|deref_mut|into|from|as_ref|clone|into_iter|borrow|to_owned)$)"
    r"|(<impl (core|std)::(clone::Clone|convert::From<.*>|convert::Into<.*>|iter::IntoIterator|ops::Deref|ops::DerefMut|convert::AsRef<.*>|borrow::ToOwned) for .*>::"
    r"(clone|from|into|into_iter|deref|deref_mut|as_ref|to_owned)$)")


_PINNED = None


def pinned_names():
    """Parameter / capture names of the reviewed commit by position (tables/pinned_names.json)."""
    global _PINNED
    if _PINNED is None:
        p = os.path.join(F.VERIF, "tables", "pinned_names.json")
        try:
            with open(p) as fh:
                _PINNED = json.load(fh)["names"]
        except (OSError, ValueError, KeyError):
            _PINNED = {}
    return _PINNED


class Prov:
    """Backward provenance inside one function body (flow-insensitive over
    definitions of a local; temporaries have one definition)."""

    def __init__(self, fn, max_depth=40):
        self.fn = fn
        self.max_depth = max_depth
        self.defs = defaultdict(list)  # local -> [(bb, si|None, kind, payload)]
        for bb, b in enumerate(fn.blocks):
            for si, st in enumerate(b["stmts"]):
                if st["k"] == "assign":
                    pl = Place(st["pl"])
                    if pl.is_local():
                        self.defs[pl.local].append((bb, si, "rv", st["rv"]))
                    else:
                        self.defs[pl.local].append((bb, si, "partial", st))
            t = b["term"]
            if t["k"] == "call":
                pl = Place(t["dest"])
                if pl.is_local():
                    self.defs[pl.local].append((bb, None, "call", t))
                else:
                    self.defs[pl.local].append((bb, None, "partial", t))
        self._memo = {}
        pn = pinned_names().get(fn.path)
        # names are alpha-renamed to those of the reviewed commit, position by position
        self.pin_args = pn["args"] if pn and len(pn["args"]) == fn.arg_count else None
        # captures are renamed position by position only while the number of captures is unchanged; if a capture
        # was added or removed the positions no longer correspond and the current names are kept
        cur = getattr(fn, "upvar_names", None)
        self.pin_upvars = None
        if pn and fn.kind == "Closure" and cur is not None and isinstance(pn.get("upvars"), list):
            # a capture keeps its own name when that name is one of the reviewed commit's (so re-ordering, adding or
            # removing captures changes nothing); a *new* name is taken to be a rename of the reviewed capture that
            # disappeared, when that is unambiguous (same count; same position, or the only vacancy)
            pinned = pn["upvars"]
            vacant = [n for n in pinned if n not in cur]
            fresh = [i for i, n in enumerate(cur) if n not in pinned]
            self.pin_upvars = {}
            for i in fresh:
                if len(pinned) == len(cur) and pinned[i] in vacant:
                    self.pin_upvars[str(i)] = pinned[i]
                elif len(pinned) == len(cur) and len(vacant) == 1 and len(fresh) == 1:
                    self.pin_upvars[str(i)] = vacant[0]

    def of_local(self, l, depth=0, stack=()):
        if l in self._memo:
            return self._memo[l]
        if l in stack or depth > self.max_depth:
            return T("local", self.fn.names.get(l, "_%d" % l))
        fn = self.fn
        if 1 <= l <= fn.arg_count:
            name = fn.names.get(l)
            if name is None and l - 1 < len(fn.arg_names) and fn.arg_names[l - 1]:
                name = fn.arg_names[l - 1]
            if self.pin_args is not None and self.pin_args[l - 1]:
                name = self.pin_args[l - 1]
            if fn.kind == "Closure" and l == 1:
                name = "<env>"
            r = T("param", name or ("arg%d" % l), meta=l)
            full = [d for d in self.defs.get(l, []) if d[2] != "partial"]
            if not full:
                self._memo[l] = r
                return r
        defs = [d for d in self.defs.get(l, []) if d[2] != "partial"]
        if not defs:
            r = T("local", fn.names.get(l, "_%d" % l), meta=l)
            self._memo[l] = r
            return r
        st2 = stack + (l,)
        alts = []
        for (bb, si, kind, payload) in defs:
            if kind == "rv":
                alts.append(self.of_rvalue(payload, depth + 1, st2))
            else:
                alts.append(self.of_call(payload, depth + 1, st2))
        if len(alts) == 1:
            r = alts[0]
        else:
            # drop trivially-dead initialisers (`_x = const false` drop flags are not interesting)
            r = T("phi", fn.names.get(l), sub=alts, meta=l)
        if not stack:
            self._memo[l] = r
        return r

    def of_place(self, pl, depth=0, stack=()):
        if isinstance(pl, dict):
            pl = Place(pl)
        t = self.of_local(pl.local, depth, stack)
        for p in pl.proj:
            k = p["k"]
            if k == "deref":
                if t.kind == "ref":
                    t = t.sub[0]
                else:
                    t = T("deref", sub=[t])
            elif k == "field":
                if (t.kind == "variant" and t.a == "Continue" and p["i"] == 0 and t.sub[0].kind == "call"
                        and "::branch" in t.sub[0].a and t.sub[0].sub):
                    t = T("try", sub=[strip_err(t.sub[0].sub[0])], meta=t.sub[0].meta)
                elif t.kind == "aggr" and t.meta and p["i"] < len(t.sub) and t.meta.get("kind") in ("tuple", "adt", "closure"):
                    t = t.sub[p["i"]]
                else:
                    nm = p["name"]
                    if self.pin_upvars is not None and pl.local == 1 and str(p["i"]) in self.pin_upvars and self._is_env(t):
                        nm = self.pin_upvars[str(p["i"])]
                    t = T("field", nm, sub=[t], meta=p)
            elif k == "downcast":
                t = T("variant", p["variant"], sub=[t])
            elif k == "index":
                t = T("index", sub=[t, self.of_local(p["l"], depth + 1, stack)])
            elif k == "cindex":
                t = T("index", ("-" if p["from_end"] else "") + str(p["off"]), sub=[t], meta=p)
            elif k == "subslice":
                t = T("index", "%d..%s%d" % (p["from"], "-" if p["from_end"] else "", p["to"]), sub=[t], meta=p)
            else:
                t = T("unknown", k, sub=[t])
        return t

    @staticmethod
    def _is_env(t):
        while t.kind in ("deref", "ref") and t.sub:
            t = t.sub[0]
        return t.kind == "param" and t.a == "<env>"

    def of_operand(self, op, depth=0, stack=()):
        k = op.get("k")
        if k in ("copy", "move"):
            return self.of_place(op["pl"], depth, stack)
        if k == "const":
            if "named" in op:
                return T("named", strip_generics(op["named"]), meta=op)
            if "fn" in op:
                return T("fn", strip_generics(op["fn"]), meta=op)
            if "int" in op:
                return T("const", int(op["int"]), meta=op)
            if "promoted" in op and op["promoted"] < len(self.fn.promoted) and depth < self.max_depth:
                pf = self.fn.promoted[op["promoted"]]
                return Prov(pf).of_local(0, depth + 1)
            if "str" in op:
                return T("str", op["str"], meta=op)
            return T("const", "<%s>" % norm_ty(op["ty"]), meta=op)
        return T("unknown", k)

    def of_rvalue(self, rv, depth=0, stack=()):
        k = rv["k"]
        if k == "use":
            return self.of_operand(rv["a"], depth, stack)
        if k == "ref" or k == "rawptr":
            inner = self.of_place(rv["pl"], depth, stack)
            if inner.kind == "deref":
                return inner.sub[0]
            return T("ref", sub=[inner], meta=rv)
        if k == "cast":
            inner = self.of_operand(rv["a"], depth, stack)
            kind = rv["kind"]
            if kind.startswith("PointerCoercion") or kind in ("Transmute",) and False:
                return inner
            if norm_ty(rv["from"]) == norm_ty(rv["ty"]):
                return inner
            return T("cast", norm_ty(rv["ty"]), sub=[inner], meta=rv)
        if k == "binop":
            return T("binop", rv["op"], sub=[self.of_operand(rv["a"], depth, stack), self.of_operand(rv["b"], depth, stack)], meta=rv)
        if k == "unop":
            return T("unop", rv["op"], sub=[self.of_operand(rv["a"], depth, stack)], meta=rv)
        if k == "discr":
            return T("discr", sub=[self.of_place(rv["pl"], depth, stack)])
        if k == "aggr":
            agg = rv["agg"]
            if agg == "adt":
                name = "%s::%s" % (strip_generics(rv["adt"]), rv["variant"])
                if name.endswith("::" + rv["adt"].split("::")[-1]) and False:
                    pass
                meta = {"kind": "adt", "rv": rv}
            elif agg == "closure":
                name = "closure:" + strip_generics(rv["closure"])
                meta = {"kind": "closure", "rv": rv}
            elif agg == "tuple":
                name = "tuple"
                meta = {"kind": "tuple", "rv": rv}
            else:
                name = agg
                meta = {"kind": agg, "rv": rv}
            return T("aggr", name, sub=[self.of_operand(o, depth, stack) for o in rv["ops"]], meta=meta)
        if k == "repeat":
            return T("aggr", "repeat", sub=[self.of_operand(rv["a"], depth, stack)], meta={"kind": "repeat", "rv": rv})
        return T("unknown", rv.get("dbg", k))

    def of_call(self, t, depth=0, stack=()):
        name = callee_of(t)
        args = [self.of_operand(a, depth, stack) for a in t["args"]]
        return T("call", name, sub=args, meta=t)


_ERRW = re.compile(r"^(std|core)::(result::Result|option::Option)::(map_err|ok_or|ok_or_else)$")


def strip_err(t):
    """`x.map_err(f)?` succeeds exactly when x does: drop error-mapping adaptors."""
    while t.kind == "call" and _ERRW.match(t.a) and t.sub:
        t = t.sub[0]
    return t


def peel(t, transparent=True, refs=True, casts=False):
    """Strip reference/deref/transparent-wrapper layers."""
    while True:
        if refs and t.kind in ("ref", "deref"):
            t = t.sub[0]
        elif casts and t.kind == "cast":
            t = t.sub[0]
        elif transparent and t.kind == "call" and TRANSPARENT_CALLS.search(t.a) and t.sub:
            t = t.sub[0]
        else:
            return t


# --------------------------------------------------------------------------
# Whole program
# --------------------------------------------------------------------------

class Program:
    def __init__(self, facts_dir, crates=None):
        self.facts_dir = facts_dir
        self.crates = {}
        self.fns = {}
        self.fns_by_crate = defaultdict(list)
        self.adts = {}
        self.impls = []
        self.consts = {}
        self.traits = {}
        for c in crates or F.WORKSPACE_CRATES:
            data = F.load_crate(facts_dir, c)
            self.crates[c] = data
            for fj in data["fns"]:
                fn = Fn(c, fj)
                key = fn.path
                if key in self.fns:
                    # disambiguate duplicates (several impls with stripped generics)
                    n = 2
                    while "%s#%d" % (key, n) in self.fns:
                        n += 1
                    key = "%s#%d" % (key, n)
                    fn.path = key
                self.fns[key] = fn
                self.fns_by_crate[c].append(fn)
            for a in data["adts"]:
                self.adts[strip_generics(a["path"])] = a
            for i in data["impls"]:
                i["crate"] = c
                self.impls.append(i)
            for k in data["consts"]:
                self.consts[strip_generics(k["path"])] = k
            for t in data["traits"]:
                self.traits[strip_generics(t["path"])] = t
        # capture names of every closure, in capture order, from the aggregate that creates it
        for fn in list(self.fns.values()):
            for b in fn.blocks:
                for st in b["stmts"]:
                    if st["k"] == "assign" and st["rv"].get("k") == "aggr" and st["rv"].get("agg") == "closure":
                        c = self.fns.get(strip_generics(st["rv"].get("closure", "")))
                        if c is not None:
                            c.upvar_names = list(st["rv"].get("fields") or [])
        self._cg = None
        self._from_index = None
        self._prov = {}
        self._raw_index = defaultdict(list)
        for fn in self.fns.values():
            self._raw_index[strip_generics(fn.raw_path)].append(fn)

    def prov(self, fn):
        if fn.path not in self._prov:
            self._prov[fn.path] = Prov(fn)
        return self._prov[fn.path]

    def fn(self, path):
        return self.fns.get(path)

    def find_fns(self, rx, crate=None):
        r = re.compile(rx)
        return [f for f in self.fns.values() if r.search(f.path) and (crate is None or f.crate == crate)]

    def one_fn(self, rx, crate=None):
        l = self.find_fns(rx, crate)
        return l[0] if len(l) == 1 else None

    def closures_of(self, fn):
        return [f for f in self.fns.values() if f.kind == "Closure" and f.path.startswith(fn.path + "::{closure")]

    def const_value(self, path):
        c = self.consts.get(path)
        if c and "int" in c:
            return int(c["int"])
        return None

    # -- call graph --------------------------------------------------------
    def trait_impl_methods(self, trait_def, method):
        out = []
        for i in self.impls:
            if strip_generics(i.get("trait_def", "")) == trait_def:
                for it in i["items"]:
                    if it["name"] == method and it["kind"].startswith("Fn"):
                        out.extend(self._raw_index.get(strip_generics(it["path"]), []))
        return out

    def _residual_conversion(self, t):
        """`?` on Result<_, E> in a function returning Result<_, F> converts with <F as From<E>>::from inside core's
        generic from_residual; that call is not in the workspace's MIR, so the edge is added here."""
        g = t.get("gargs") or []
        if len(g) != 2:
            return []

        def err_ty(r):
            m = re.match(r"^(?:std|core)::result::Result<(.*)>$", norm_ty(r))
            if not m:
                return None
            parts, depth, cur = [], 0, ""
            for ch in m.group(1):
                if ch in "<([":
                    depth += 1
                elif ch in ">)]":
                    depth -= 1
                if ch == "," and depth == 0:
                    parts.append(cur.strip())
                    cur = ""
                else:
                    cur += ch
            parts.append(cur.strip())
            return parts[-1] if len(parts) == 2 else None
        base = lambda x: re.sub(r"<.*>", "", x or "")
        F_, E_ = err_ty(g[0]), err_ty(g[1])
        if not F_ or not E_ or base(F_) == base(E_):
            return []
        if self._from_index is None:
            self._from_index = defaultdict(list)
            for fn in self.fns.values():
                m = re.match(r"^<(.+) as std::convert::From<(.+)>>::from(#\d+)?$", fn.path)
                if m:
                    self._from_index[(base(m.group(1)), base(m.group(2)))].append(fn)
        return self._from_index.get((base(F_), base(E_)), [])

    def call_targets(self, t):
        """Workspace functions a call terminator may invoke."""
        if t.get("callee") == "std::ops::FromResidual::from_residual":
            return self._residual_conversion(t)
        res = t.get("res")
        if res is not None:
            p = strip_generics(res)
            fs = self._raw_index.get(p, [])
            if fs:
                return fs
            if t.get("res_k") != "virtual":
                return []
        # unresolved (generic receiver / trait object): class-hierarchy expansion
        tr = t.get("trait")
        if tr:
            method = strip_generics(t["callee"]).split("::")[-1]
            impls = self.trait_impl_methods(strip_generics(tr), method)
            # default method bodies
            impls += self._raw_index.get(strip_generics(t["callee"]), [])
            return impls
        return self._raw_index.get(strip_generics(t.get("callee", "")), [])

    def callgraph(self):
        if self._cg is not None:
            return self._cg
        cg = defaultdict(set)
        for fn in self.fns.values():
            for bb, t in fn.calls():
                for tgt in self.call_targets(t):
                    cg[fn.path].add(tgt.path)
            # closures created here, fn items referenced as values
            for b in fn.blocks:
                for st in b["stmts"]:
                    if st["k"] != "assign":
                        continue
                    for op in rvalue_operands(st["rv"]):
                        if op.get("k") == "const" and "fn" in op:
                            for tgt in self._raw_index.get(strip_generics(op["fn"]), []):
                                cg[fn.path].add(tgt.path)
                    rv = st["rv"]
                    if rv["k"] == "aggr" and rv["agg"] == "closure":
                        for tgt in self._raw_index.get(strip_generics(rv["closure"]), []):
                            cg[fn.path].add(tgt.path)
                t = b["term"]
                if t["k"] in ("call", "tailcall"):
                    for op in t["args"]:
                        if op.get("k") == "const" and "fn" in op:
                            for tgt in self._raw_index.get(strip_generics(op["fn"]), []):
                                cg[fn.path].add(tgt.path)
        self._cg = cg
        return cg

    def reachable_from(self, roots):
        cg = self.callgraph()
        seen = set()
        st = [r for r in roots]
        parent = {}
        while st:
            x = st.pop()
            if x in seen:
                continue
            seen.add(x)
            for y in sorted(cg.get(x, ())):
                if y not in seen:
                    parent.setdefault(y, x)
                    st.append(y)
        return seen, parent


def rvalue_operands(rv):
    k = rv["k"]
    if k in ("use", "cast", "unop", "repeat"):
        return [rv["a"]]
    if k == "binop":
        return [rv["a"], rv["b"]]
    if k == "aggr":
        return rv["ops"]
    return []


def dump_fn(fn, out):
    out.write("fn %s  [%s:%d-%d] vis=%s kind=%s\n" % (fn.path, fn.file, fn.line, fn.eline, fn.vis, fn.kind))
    for i, l in enumerate(fn.locals):
        nm = fn.names.get(i)
        out.write("    let _%d: %s%s\n" % (i, l["ty"], ("  // " + nm) if nm else ""))
    for d in fn.dbg:
        pl = Place(d["pl"])
        if not pl.is_local():
            out.write("    debug %s => %r\n" % (d["name"], pl))
    for bb, b in enumerate(fn.blocks):
        out.write("  bb%d%s:\n" % (bb, " (cleanup)" if b["cleanup"] else ""))
        for st in b["stmts"]:
            if st["k"] == "assign":
                out.write("    %r = %s   // L%d\n" % (Place(st["pl"]), show_rv(st["rv"]), st["line"]))
            elif st["k"] == "dead":
                pass
            else:
                out.write("    %s\n" % st)
        t = b["term"]
        k = t["k"]
        if k == "call":
            out.write("    %r = %s(%s) -> bb%s unwind %s   // L%d decl=%s%s\n" % (
                Place(t["dest"]), t.get("res_args") or t.get("callee_args") or t.get("callee"),
                ", ".join(show_op(a) for a in t["args"]),
                t["target"], t["unwind"], t["line"], t.get("callee"), "" if t.get("res") else " UNRESOLVED"))
        elif k == "switch":
            out.write("    switchInt(%s: %s) -> [%s, otherwise: bb%d]\n" % (
                show_op(t["discr"]), t["dty"], ", ".join("%s: bb%d" % (v, x) for v, x in t["arms"]), t["otherwise"]))
        elif k == "assert":
            out.write("    assert(%s%s, %s(%s)) -> bb%s   // L%d\n" % (
                "" if t["expected"] else "!", show_op(t["cond"]), t["msg"], ", ".join(show_op(o) for o in t["ops"]), t["target"], t["line"]))
        elif k == "drop":
            out.write("    drop(%r) -> bb%s unwind %s\n" % (Place(t["pl"]), t["target"], t["unwind"]))
        elif k == "goto":
            out.write("    goto -> bb%d\n" % t["target"])
        else:
            out.write("    %s\n" % k)


def must_pass_through(fn, start, stops, through, unwind=True):
    """True iff every path (following normal and, optionally, unwind edges) from
    block `start` to any block in `stops` contains a block of `through`.
    Returns (ok, offending_path)."""
    through = set(through)
    stops = set(stops)
    seen = set()
    st = [(start, (start,))]
    while st:
        b, path = st.pop()
        if b in through:
            continue
        if b in stops:
            return False, list(path)
        if b in seen:
            continue
        seen.add(b)
        for s in fn.succs(b, unwind=unwind):
            st.append((s, path + (s,)))
    return True, None


def blocks_with_term(fn, kind):
    return [b for b in range(len(fn.blocks)) if fn.blocks[b]["term"]["k"] == kind]


def natural_loops(fn):
    """[(header_block, set(body blocks))] for every back edge (normal edges only), merged by header."""
    cfg = fn.cfg()
    loops = {}
    n = len(fn.blocks)
    preds = defaultdict(list)
    for b in range(n):
        for s in fn.succs(b):
            preds[s].append(b)
    for b in range(n):
        if not cfg.reachable(b):
            continue
        for h in fn.succs(b):
            if cfg.reachable(h) and h in cfg.dominators(b):
                body = loops.setdefault(h, {h})
                st = [b]
                while st:
                    x = st.pop()
                    if x in body:
                        continue
                    body.add(x)
                    st.extend(preds[x])
    return sorted(loops.items())


def loops_containing(fn, bb):
    return [(h, body) for h, body in natural_loops(fn) if bb in body]


def loop_exit_switches(fn, body):
    out = []
    for b in sorted(body):
        t = fn.term(b)
        if t["k"] == "switch":
            tg = [a[1] for a in t["arms"]] + [t["otherwise"]]
            if any(x not in body for x in tg) and any(x in body for x in tg):
                out.append(b)
    return out


def return_table(prog, fn):
    """[(block, rendered value assigned to the return place, [dominating atom texts])]"""
    from . import cond as C
    pv = prog.prov(fn)
    out = []
    for bb, b in enumerate(fn.blocks):
        if b["cleanup"] or not fn.cfg().reachable(bb):
            continue
        for st in b["stmts"]:
            if st["k"] == "assign" and Place(st["pl"]).is_local() and Place(st["pl"]).local == 0:
                out.append((bb, render(pv.of_rvalue(st["rv"])), [a.text for a in C.conditions(prog, fn, bb)]))
        t = b["term"]
        if t["k"] == "call" and Place(t["dest"]).is_local() and Place(t["dest"]).local == 0:
            c = callee_of(t)
            if "from_residual" in c:
                out.append((bb, "<propagate error>", [a.text for a in C.conditions(prog, fn, bb)]))
            else:
                out.append((bb, render(pv.of_call(t)), [a.text for a in C.conditions(prog, fn, bb)]))
    return out
