#!/usr/bin/env python3
"""tools_mut.py <props,comma> <file> <old> <new> [<file> <old> <new> ...]: run checks on a scratch copy of /repo with textual replacements applied."""
import os, shutil, subprocess, sys, tempfile
props = sys.argv[1].split(",")
edits = sys.argv[2:]
S = tempfile.mkdtemp(prefix="essb-mut-", dir="/tmp")
try:
    subprocess.check_call(["rsync", "-a", "--exclude", "target", "--exclude", ".git", "/repo/", S + "/repo/"])
    for i in range(0, len(edits), 3):
        p = os.path.join(S, "repo", edits[i]); s = open(p).read()
        if edits[i+1] not in s:
            print("OLD TEXT NOT FOUND in", edits[i]); sys.exit(3)
        open(p, "w").write(s.replace(edits[i+1], edits[i+2], 1))
    os.makedirs(S + "/ev")
    env = dict(os.environ, ESSB_REPO=S + "/repo", ESSB_EVIDENCE_DIR=S + "/ev")
    for P in props:
        r = subprocess.run(["./verif", "check", P], cwd="/verif", env=env, stdout=subprocess.PIPE, stderr=subprocess.STDOUT, text=True)
        lines = [l for l in r.stdout.splitlines() if "violated:" in l or l.startswith("ERROR") or "Traceback" in l or "KNOWN" in l or l.strip().startswith("at ")]
        print("== %s exit=%d" % (P, r.returncode))
        for l in lines[:int(os.environ.get("MUT_LINES", "6"))]:
            print("   ", l[:230])
        if r.returncode == 2:
            print(r.stdout[-1500:])
finally:
    shutil.rmtree(S, ignore_errors=True)
